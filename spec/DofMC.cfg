SPECIFICATION Spec
INVARIANTS IsPartition PrescribedIsUnion LastBoundaryWins LawsAcceptCorrect LawsRejectCorrupted
CHECK_DEADLOCK FALSE
