------------------------------ MODULE ModalTrace ------------------------------
EXTENDS Modal, Json, IOUtils
TraceData == ndJsonDeserialize(IOEnv.TRACE_FILE)
VARIABLES l, bad, cnt
R == INSTANCE LawRun WITH Trace <- TraceData, Failing <- Failing, Applicable <- Applicable
Spec == R!Spec
Consumed == R!Consumed
=============================================================================
