------------------------------- MODULE Threads -------------------------------
(* C02 / C17 (schedules) -- the thread fan-out of the weak-form expression    *)
(* API: one task per basis-function (pair); every task computes its value     *)
(* and writes it into a shared buffer; the caller joins all tasks and then    *)
(* reads the buffer.  With sym = TRUE a task for the pair (x, y), x <= y,     *)
(* writes the SAME value to the cells (x, y) and (y, x).                      *)
(*                                                                            *)
(* TLC explores every interleaving of the individual cell writes.  The final  *)
(* buffer is schedule independent iff overlapping writes carry equal values:  *)
(*   Mode = "full"     every pair its own task, write sets disjoint           *)
(*   Mode = "sym"      upper-triangle tasks, mirrored writes, symmetric form  *)
(*   Mode = "sym_asym" the same with a NON-symmetric form: the precondition   *)
(*                     of sym = TRUE is violated and TLC must find that the   *)
(*                     mirrored cell then holds the transposed value          *)
(*   Mode = "racy"     a seeded fault: two tasks accumulate (read-modify-     *)
(*                     write) into one cell -- TLC must find the lost update  *)
EXTENDS Integers, Sequences, FiniteSets, TLC

CONSTANTS N, Mode
Basis == 1..N
Pairs == IF Mode \in {"sym", "sym_asym"} THEN {p \in Basis \X Basis : p[1] <= p[2]} ELSE Basis \X Basis
Val(p) == IF Mode = "sym_asym" THEN 10 * p[1] + p[2] ELSE 10 * (IF p[1] <= p[2] THEN p[1] ELSE p[2]) + (IF p[1] <= p[2] THEN p[2] ELSE p[1])
Cells(p) == IF Mode \in {"sym", "sym_asym"} THEN {p, <<p[2], p[1]>>} ELSE {p}
Expected == [c \in Basis \X Basis |-> Val(c)]       \* the defining value of cell c

VARIABLES buf, todo, started, tmp, joined
vars == <<buf, todo, started, tmp, joined>>
Init == /\ buf = [c \in Basis \X Basis |-> 0]
        /\ todo = [p \in Pairs |-> Cells(p)]         \* cells still to be written by task p
        /\ started = {} /\ tmp = [p \in Pairs |-> 0] /\ joined = FALSE
Start(p) == p \notin started /\ started' = started \cup {p} /\ UNCHANGED <<buf, todo, tmp, joined>>
Write(p, c) == /\ p \in started /\ c \in todo[p]
               /\ buf' = [buf EXCEPT ![c] = Val(p)]
               /\ todo' = [todo EXCEPT ![p] = @ \ {c}]
               /\ UNCHANGED <<started, tmp, joined>>
\* seeded fault: accumulate into cell <<1,1>> with a non-atomic read-modify-write
Read(p) == Mode = "racy" /\ p \in started /\ todo[p] # {} /\ tmp[p] = 0 /\ tmp' = [tmp EXCEPT ![p] = buf[<<1, 1>>] + 1000]
           /\ UNCHANGED <<buf, todo, started, joined>>
Accumulate(p) == /\ Mode = "racy" /\ tmp[p] # 0 /\ todo[p] # {}
                 /\ buf' = [buf EXCEPT ![<<1, 1>>] = tmp[p] + 1] /\ todo' = [todo EXCEPT ![p] = {}]
                 /\ UNCHANGED <<started, tmp, joined>>
Join == /\ ~joined /\ started = Pairs /\ \A p \in Pairs : todo[p] = {}
        /\ joined' = TRUE /\ UNCHANGED <<buf, todo, started, tmp>>
Next == \/ \E p \in Pairs : Start(p) \/ (Mode # "racy" /\ \E c \in Basis \X Basis : Write(p, c)) \/ Read(p) \/ Accumulate(p)
        \/ Join \/ (joined /\ UNCHANGED vars)
Spec == Init /\ [][Next]_vars /\ WF_vars(Next)

\* after the join the buffer holds the defining values, whatever the schedule
ScheduleIndependent == joined => (IF Mode = "racy" THEN buf[<<1, 1>>] = 1000 * Cardinality(Pairs) + Cardinality(Pairs) ELSE buf = Expected)
\* nobody reads the buffer before every task has finished
JoinWaits == joined => \A p \in Pairs : todo[p] = {}
Terminates == <>joined
=============================================================================
