----------------------------- MODULE RegionTrace -----------------------------
EXTENDS Region, Json, IOUtils
TraceData == ndJsonDeserialize(IOEnv.TRACE_FILE)
VARIABLES l, bad, cnt
R == INSTANCE LawRun WITH Trace <- TraceData, Failing <- FailingR, Applicable <- ApplicableR
Spec == R!Spec
Consumed == R!Consumed
=============================================================================
