----------------------------- MODULE FieldsTrace -----------------------------
(* Trace validation of executed container programs: one record per executed   *)
(* step with the operation and the OBSERVED heap before and after (container  *)
(* -> field object ids, field object -> buffer id, buffer -> integer content).*)
(* The model state is rebuilt from the observed pre-state, the operation is   *)
(* applied by Fields!Apply and the result must be isomorphic to the observed  *)
(* post-state, clause by clause.                                              *)
EXTENDS Fields, Json, IOUtils
TraceData == ndJsonDeserialize(IOEnv.TRACE_FILE)
PairFun(sq) == [x \in {p[1] : p \in ToSet(sq)} |-> (CHOOSE p \in ToSet(sq) : p[1] = x)[2]]
AbsOf(o) == [cont |-> o.cont, fobj |-> PairFun(o.fobj), heap |-> PairFun(o.heap)]
Clauses(r) == {"EnabledInModel", "ContainersConform", "FieldSharingConforms", "ArraySharingConforms", "ContentConforms"}
Applicable(r) == Clauses(r)
Failing(r) ==
  LET s == AbsOf(r.pre) o == AbsOf(r.post) IN
  IF ~Enabled(s, r.op) THEN {"EnabledInModel"}
  ELSE LET m == Apply(s, r.op) IN
       (IF ContainersConform(m, o) THEN {} ELSE {"ContainersConform"})
       \cup (IF FieldSharingConforms(m, o) THEN {} ELSE {"FieldSharingConforms"})
       \cup (IF ArraySharingConforms(m, o) THEN {} ELSE {"ArraySharingConforms"})
       \cup (IF ContentConforms(m, o) THEN {} ELSE {"ContentConforms"})
VARIABLES l, bad, cnt
R == INSTANCE LawRun WITH Trace <- TraceData, Failing <- Failing, Applicable <- Applicable
Spec == R!Spec
Consumed == R!Consumed
\* reference instances (run with FieldsRef.cfg)
RefPre == [cont |-> [a |-> <<10, 11>>, b |-> <<20, 21>>], fobj |-> << <<10, 5>>, <<11, 6>>, <<20, 7>>, <<21, 8>> >>,
           heap |-> << <<5, <<0, 0, 0, 0>> >>, <<6, <<0, 0>> >>, <<7, <<1, 1, 1, 1>> >>, <<8, <<2, 2>> >> >>]
RefIadd == [id |-> "ref", op |-> [op |-> "iop", c |-> "a", kind |-> "add", v |-> 1], pre |-> RefPre,
            post |-> [RefPre EXCEPT !.heap = << <<5, <<1024, 2048, 3072, 4096>> >>, <<6, <<5120, 6144>> >>, <<7, <<1, 1, 1, 1>> >>, <<8, <<2, 2>> >> >>]]
RefLink == [id |-> "ref", op |-> [op |-> "link", a |-> "a", b |-> "b"], pre |-> RefPre,
            post |-> [RefPre EXCEPT !.fobj = << <<10, 7>>, <<11, 8>>, <<20, 7>>, <<21, 8>> >>]]
ASSUME Failing(RefIadd) = {}
ASSUME Failing([RefIadd EXCEPT !.post.heap[2] = <<6, <<6144, 5120>> >>]) = {"ContentConforms"}
ASSUME Failing(RefLink) = {}
\* a link that re-binds only the first field
ASSUME Failing([RefLink EXCEPT !.post.fobj = << <<10, 7>>, <<11, 6>>, <<20, 7>>, <<21, 8>> >>]) = {"ArraySharingConforms", "ContentConforms"}
\* a link that copies instead of aliasing
ASSUME Failing([RefLink EXCEPT !.post = [cont |-> RefPre.cont, fobj |-> << <<10, 5>>, <<11, 6>>, <<20, 7>>, <<21, 8>> >>,
                 heap |-> << <<5, <<1, 1, 1, 1>> >>, <<6, <<2, 2>> >>, <<7, <<1, 1, 1, 1>> >>, <<8, <<2, 2>> >> >>]]) = {"ArraySharingConforms"}
=============================================================================
