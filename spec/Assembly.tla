------------------------------ MODULE Assembly ------------------------------
(* C02 -- integral forms assemble exactly the sums they denote.               *)
(*                                                                            *)
(* The driver injects small INTEGER shape-function / gradient / volume arrays *)
(* into a real region (they are plain attributes), passes integer integrands  *)
(* through the real IntegralForm and logs the assembled sparse result densely.*)
(* All floating-point work is then exact, and TLC recomputes the DEFINING SUM *)
(* and compares with tolerance 0.                                             *)
(*                                                                            *)
(* For a block (test field v = fields[i], trial field u = fields[j]):         *)
(*   K[Dof(i,p,a), Dof(j,s,b)] = sum_c sum_q sum_{A: cells_i[c][A]=p}         *)
(*        sum_{B: cells_j[c][B]=s} sum_{J,L}  Tv(A,J) fun[a,J,b,L,q,c] Tu(B,L) w[q,c] *)
(* with Tv(A,J) = dh[A][J][q][c] for a gradient space (J over mesh axes) and  *)
(* h[A][q][c] for a value space (no J).  Linear forms drop the trial factor.  *)
(* Plane strain: the integrand is issued as 3x3(x3x3) and only its leading    *)
(* 2x2(x2x2) part is used.  Axisymmetric (components z, r; hoop index 3):     *)
(* weight 2 pi R dV and the hoop contributions fun[..3,3..]/R on the radial   *)
(* component; the factor 2 pi is divided out by the driver (exact).           *)
(* Mixed containers: global layout by field offsets; mode 1 vector stack,     *)
(* mode 2 upper triangle given (K_ji = K_ij^T), mode 3 all blocks; an absent  *)
(* (None) block is zero.                                                      *)
EXTENDS FixedPoint, TLC

Fld(r, f) == r.fields[f]
Off(r, f) == SumOver(1..(f - 1), LAMBDA g : Fld(r, g).np * Fld(r, g).dim)
NDof(r) == Off(r, Len(r.fields) + 1)

\* flat C-order index into an integrand with component shape shp (sequence) followed by (nq, nc)
RECURSIVE FlatIdx(_, _, _)
FlatIdx(shp, idx, n) == IF n = 0 THEN 0 ELSE FlatIdx(shp, idx, n - 1) * shp[n] + idx[n]
FunAt(r, b, idx, q, c) == b.fun[(FlatIdx(b.fshape, idx, Len(b.fshape)) * r.nq + (q - 1)) * r.nc + c]

\* test / trial factor of local node A (1-based), gradient axis J (0-based; ignored for value spaces)
T(r, f, grad, A, J, q, c) == IF grad THEN Fld(r, f).dh[A][J + 1][q][c] ELSE Fld(r, f).h[A][q][c]
Axes(r, grad) == IF grad THEN 0..(r.gdim - 1) ELSE {0}
LocalNodes(r, f, c, p) == {A \in 1..Len(Fld(r, f).cells[c]) : Fld(r, f).cells[c][A] = p}

\* component index tuple of the integrand for test (a, J) and trial (b, L)
IdxV(b, a, J) == (IF b.vaxis THEN <<a>> ELSE <<>>) \o (IF b.gv THEN <<J>> ELSE <<>>)
IdxU(b, k, L) == (IF b.uaxis THEN <<k>> ELSE <<>>) \o (IF b.gu THEN <<L>> ELSE <<>>)

W(r, q, c) == r.w[q][c]
QC(r) == (1..r.nq) \X (1..r.nc)

\* ---- Cartesian / plane strain blocks
BilinearEntry(r, b, p, a, s, k) ==
  SumOver(QC(r), LAMBDA qc :
    SumOver(LocalNodes(r, b.i, qc[2], p) \X LocalNodes(r, b.j, qc[2], s), LAMBDA AB :
      SumOver(Axes(r, b.gv) \X Axes(r, b.gu), LAMBDA JL :
        T(r, b.i, b.gv, AB[1], JL[1], qc[1], qc[2]) * FunAt(r, b, IdxV(b, a, JL[1]) \o IdxU(b, k, JL[2]), qc[1], qc[2])
          * T(r, b.j, b.gu, AB[2], JL[2], qc[1], qc[2]) * W(r, qc[1], qc[2]))))
LinearEntry(r, b, p, a) ==
  SumOver(QC(r), LAMBDA qc :
    SumOver(LocalNodes(r, b.i, qc[2], p), LAMBDA A :
      SumOver(Axes(r, b.gv), LAMBDA J :
        T(r, b.i, b.gv, A, J, qc[1], qc[2]) * FunAt(r, b, IdxV(b, a, J), qc[1], qc[2]) * W(r, qc[1], qc[2]))))

\* ---- axisymmetric blocks (gradient spaces; integrand issued with 3 x 3 (x 3 x 3) components; R = r.R[q][c])
\* all terms carry the weight R dV; the hoop terms are divided by R (once or twice): the case data are
\* chosen such that every division is exact
Rq(r, qc) == r.R[qc[1]][qc[2]]
H(r, f, A, qc) == Fld(r, f).h[A][qc[1]][qc[2]]
DH(r, f, A, J, qc) == Fld(r, f).dh[A][J + 1][qc[1]][qc[2]]
\* value test space: the integrand has the two in-plane components and a hoop component that acts on the radial test value / R
AxiLinearValueEntry(r, b, p, a) ==
  SumOver(QC(r), LAMBDA qc :
    SumOver(LocalNodes(r, b.i, qc[2], p), LAMBDA A :
      H(r, b.i, A, qc) * (FunAt(r, b, <<a>>, qc[1], qc[2]) * Rq(r, qc) + (IF a = 1 THEN FunAt(r, b, <<2>>, qc[1], qc[2]) ELSE 0))
        * r.dV[qc[1]][qc[2]]))
\* value test space, gradient trial space (follower loads): integrand components <<a, k, L>> with hoop slots 2
AxiBilinearValueGradEntry(r, b, p, a, s, k) ==
  SumOver(QC(r), LAMBDA qc :
    SumOver(LocalNodes(r, b.i, qc[2], p) \X LocalNodes(r, b.j, qc[2], s), LAMBDA AB :
      H(r, b.i, AB[1], qc) *
      ( SumOver(0..1, LAMBDA L : FunAt(r, b, <<a, k, L>>, qc[1], qc[2]) * DH(r, b.j, AB[2], L, qc)) * Rq(r, qc)
      + (IF a = 1 /\ k = 1 THEN (FunAt(r, b, <<2, 2, 2>>, qc[1], qc[2]) * H(r, b.j, AB[2], qc)) \div Rq(r, qc) ELSE 0)
      + (IF a = 1 THEN SumOver(0..1, LAMBDA L : FunAt(r, b, <<2, k, L>>, qc[1], qc[2]) * DH(r, b.j, AB[2], L, qc)) ELSE 0)
      + (IF k = 1 THEN FunAt(r, b, <<a, 2, 2>>, qc[1], qc[2]) * H(r, b.j, AB[2], qc) ELSE 0)
      ) * r.dV[qc[1]][qc[2]]))
AxiLinearEntry(r, b, p, a) ==
  IF ~b.gv THEN AxiLinearValueEntry(r, b, p, a) ELSE
  SumOver(QC(r), LAMBDA qc :
    SumOver(LocalNodes(r, b.i, qc[2], p), LAMBDA A :
      (SumOver(0..1, LAMBDA J : DH(r, b.i, A, J, qc) * FunAt(r, b, <<a, J>>, qc[1], qc[2])) * Rq(r, qc)
       + (IF a = 1 THEN H(r, b.i, A, qc) * FunAt(r, b, <<2, 2>>, qc[1], qc[2]) ELSE 0)) * r.dV[qc[1]][qc[2]]))
AxiBilinearEntry(r, b, p, a, s, k) ==
  IF ~b.gv /\ b.gu THEN AxiBilinearValueGradEntry(r, b, p, a, s, k) ELSE
  SumOver(QC(r), LAMBDA qc :
    SumOver(LocalNodes(r, b.i, qc[2], p) \X LocalNodes(r, b.j, qc[2], s), LAMBDA AB :
      ( SumOver((0..1) \X (0..1), LAMBDA JL :
          DH(r, b.i, AB[1], JL[1], qc) * FunAt(r, b, <<a, JL[1], k, JL[2]>>, qc[1], qc[2]) * DH(r, b.j, AB[2], JL[2], qc)) * Rq(r, qc)
      + (IF a = 1 /\ k = 1 THEN (H(r, b.i, AB[1], qc) * FunAt(r, b, <<2, 2, 2, 2>>, qc[1], qc[2]) * H(r, b.j, AB[2], qc)) \div Rq(r, qc) ELSE 0)
      + (IF a = 1 THEN SumOver(0..1, LAMBDA L : H(r, b.i, AB[1], qc) * FunAt(r, b, <<2, 2, k, L>>, qc[1], qc[2]) * DH(r, b.j, AB[2], L, qc)) ELSE 0)
      + (IF k = 1 THEN SumOver(0..1, LAMBDA J : DH(r, b.i, AB[1], J, qc) * FunAt(r, b, <<a, J, 2, 2>>, qc[1], qc[2]) * H(r, b.j, AB[2], qc)) ELSE 0)
      ) * r.dV[qc[1]][qc[2]]))

\* ---- global layout
BlockFor(r, i, j) == {n \in 1..Len(r.blocks) : r.blocks[n].i = i /\ r.blocks[n].j = j}
Present(r, i, j) == BlockFor(r, i, j) # {} /\ ~(r.blocks[CHOOSE n \in BlockFor(r, i, j) : TRUE].absent)
Blk(r, i, j) == r.blocks[CHOOSE n \in BlockFor(r, i, j) : TRUE]
EntryOf(r, i, p, a, j, s, k) ==
  IF Present(r, i, j) THEN (IF r.axi THEN AxiBilinearEntry(r, Blk(r, i, j), p, a, s, k) ELSE BilinearEntry(r, Blk(r, i, j), p, a, s, k))
  ELSE IF r.mode = 2 /\ i > j /\ Present(r, j, i)
       THEN (IF r.axi THEN AxiBilinearEntry(r, Blk(r, j, i), s, k, p, a) ELSE BilinearEntry(r, Blk(r, j, i), s, k, p, a))
  ELSE 0
Rows(r) == UNION {{<<f, p, a>> : <<p, a>> \in (0..(Fld(r, f).np - 1)) \X (0..(Fld(r, f).dim - 1))} : f \in 1..Len(r.fields)}
RowIdx(r, t) == Off(r, t[1]) + Fld(r, t[1]).dim * t[2] + t[3] + 1

BilinearSum(r) ==
  /\ Len(r.obs) = NDof(r)
  /\ \A t \in Rows(r) : \A u \in Rows(r) :
        r.obs[RowIdx(r, t)][RowIdx(r, u)] = EntryOf(r, t[1], t[2], t[3], u[1], u[2], u[3])
LinearSum(r) ==
  /\ Len(r.obs) = NDof(r)
  /\ \A t \in Rows(r) :
        r.obs[RowIdx(r, t)] = (IF Present(r, t[1], 0)
                               THEN (IF r.axi THEN AxiLinearEntry(r, Blk(r, t[1], 0), t[2], t[3]) ELSE LinearEntry(r, Blk(r, t[1], 0), t[2], t[3]))
                               ELSE 0)

\* ---- equalities between two observed results of the same form (parallel flag, uniform region, expression API,
\* thread schedules): exact
SameResult(r) == Len(r.a) = Len(r.b) /\ \A n \in 1..Len(r.a) : Abs(r.a[n] - r.b[n]) <= r.tol

Clauses(r) == CASE r.kind = "bilinear" -> {"BilinearSum"} [] r.kind = "linear" -> {"LinearSum"}
                [] r.kind = "same" -> {r.what}
Holds(c, r) == CASE c = "BilinearSum" -> BilinearSum(r) [] c = "LinearSum" -> LinearSum(r)
                 [] OTHER -> SameResult(r)
Applicable(r) == Clauses(r)
Failing(r) == {c \in Clauses(r) : ~Holds(c, r)}
=============================================================================
