--------------------------------- MODULE Dof ---------------------------------
(* C08 -- one global numbering of unknowns; boundary conditions partition it. *)
(*                                                                            *)
(* Pure sets and functions; everything is recomputed by TLC from the case     *)
(* description and compared EXACTLY with what the real objects return.        *)
(*                                                                            *)
(*   fields f = 1..n with npoints np_f and dim d_f, laid out consecutively:   *)
(*        Offset(f) = sum_{g<f} np_g d_g ,  Dof(f,p,i) = Offset(f) + d_f p + i *)
(*   (p, i zero-based as in the API).                                         *)
(*   A boundary b on field f selects unknowns Sel(b), described at the level  *)
(*   of the API arguments:                                                    *)
(*     "dofmask"   explicit (point, component) mask                           *)
(*     "pointmask" point mask, all components not skipped                     *)
(*     "coord"     coordinate predicates fx/fy/fz combined by and / or, all   *)
(*                 components not skipped                                     *)
(*   Dof0 = union of Sel(b) + every unknown of a point without cells,         *)
(*   Dof1 = the rest, both ascending; Ext0 lists for each prescribed unknown  *)
(*   the value of the LAST boundary (dictionary order) selecting it, or the   *)
(*   current field value if no boundary selects it.                           *)
EXTENDS FixedPoint, TLC

Offset(c, f) == SumOver(1..(f - 1), LAMBDA g : c.fields[g].np * c.fields[g].dim)
Total(c) == Offset(c, Len(c.fields) + 1)
DofOf(c, f, p, i) == Offset(c, f) + c.fields[f].dim * p + i
Comps(c, f) == 0..(c.fields[f].dim - 1)
Points(c, f) == 0..(c.fields[f].np - 1)
Bit(seq, n) == seq[n + 1] = 1

\* points selected by a coordinate boundary: b.targets[k] = <<use, value>> per mesh axis
CoordSel(c, b) ==
  LET f == b.field
      used == {k \in 1..Len(b.targets) : b.targets[k][1] = 1}
      hit(p, k) == c.fields[f].coords[p + 1][k] = b.targets[k][2]
  IN {p \in Points(c, f) : IF b.mode = "and" THEN \A k \in used : hit(p, k) ELSE \E k \in used : hit(p, k)}

\* selected (point, component) pairs of boundary b
SelPairs(c, b) ==
  LET f == b.field IN
  CASE b.kind = "dofmask" -> {pi \in Points(c, f) \X Comps(c, f) : Bit(b.mask, pi[1] * c.fields[f].dim + pi[2])}
    [] b.kind = "pointmask" -> {pi \in Points(c, f) \X Comps(c, f) : Bit(b.mask, pi[1]) /\ ~Bit(b.skip, pi[2])}
    [] b.kind = "coord" -> {pi \in CoordSel(c, b) \X Comps(c, f) : ~Bit(b.skip, pi[2])}
Sel(c, b) == {DofOf(c, b.field, pi[1], pi[2]) : pi \in SelPairs(c, b)}

NoCell(c) == UNION {UNION {{DofOf(c, f, c.fields[f].nocell[n], i) : i \in Comps(c, f)} : n \in 1..Len(c.fields[f].nocell)} :
                    f \in 1..Len(c.fields)}

Dof0(c) == NoCell(c) \cup UNION {Sel(c, c.bounds[b]) : b \in 1..Len(c.bounds)}
Dof1(c) == (0..(Total(c) - 1)) \ Dof0(c)
Sorted(S) == SetToSortSeq(S, <)

AllValues(c) == FoldLeft(LAMBDA acc, f : acc \o f.values, <<>>, c.fields)

\* value a boundary prescribes at one of its selected pairs:
\*   scalar: the scalar; "perdof": one value per selected unknown in ascending (point, component) order;
\*   "row": one value per component, broadcast over the selected points
RankIn(S, d) == Cardinality({e \in S : e < d}) + 1
BValue(c, b, d) ==
  CASE b.vkind = "scalar" -> b.value[1]
    [] b.vkind = "perdof" -> b.value[RankIn(Sel(c, b), d)]
    [] b.vkind = "row" -> b.value[((d - Offset(c, b.field)) % c.fields[b.field].dim) + 1]
RECURSIVE ValAt(_, _, _)
ValAt(c, d, n) == IF n = 0 THEN AllValues(c)[d + 1]
                  ELSE IF d \in Sel(c, c.bounds[n]) THEN BValue(c, c.bounds[n], d) ELSE ValAt(c, d, n - 1)

Disjoint(c) == ToSet(c.dof0) \cap ToSet(c.dof1) = {}
Cover(c) == ToSet(c.dof0) \cup ToSet(c.dof1) = 0..(Total(c) - 1)
Dof0Exact(c) == c.dof0 = Sorted(Dof0(c))
Dof1Exact(c) == c.dof1 = Sorted(Dof1(c))
Ext0Exact(c) == Len(c.ext0) = Len(c.dof0) /\
                \A n \in 1..Len(c.dof0) : c.dof0[n] \in 0..(Total(c) - 1) => c.ext0[n] = ValAt(c, c.dof0[n], Len(c.bounds))
\* Boundary objects expose their own selection
BoundaryDofs(c) == \A b \in 1..Len(c.bounds) : ToSet(c.bounds[b].dofobs) = {d - Offset(c, c.bounds[b].field) : d \in Sel(c, c.bounds[b])}
BoundaryPoints(c) == \A b \in 1..Len(c.bounds) : c.bounds[b].pointsobs = Sorted({pi[1] : pi \in SelPairs(c, c.bounds[b])})

\* ---- numbering shared by value extraction, field update and assembly
ValuesOrder(c) == c.values = AllValues(c)
\* container + dx adds dx[Dof(f,p,i)] to field f, point p, component i
UpdateSplit(c) ==
  \A f \in 1..Len(c.fields) : \A p \in Points(c, f) : \A i \in Comps(c, f) :
     c.updated[f][c.fields[f].dim * p + i + 1] = c.fields[f].values[c.fields[f].dim * p + i + 1] + c.dx[DofOf(c, f, p, i) + 1]
\* a vector assembled from an integrand that is the unit vector e_i on field f only has non-zero rows
\* exactly at Dof(f, p, i) for the points p attached to a cell (positive weights for these elements)
AssemblyRow(c) ==
  \A n \in 1..Len(c.probes) :
     LET pr == c.probes[n]  f == pr.field IN
       ToSet(pr.rows) = {DofOf(c, f, p, pr.comp) : p \in Points(c, f) \ ToSet(c.fields[f].nocell)}
\* field.indices: dof[p][i] = d p + i ; eai[c][a][i] = d cells[c][a] + i
IndicesDof(c) == \A f \in 1..Len(c.fields) : c.fields[f].idof = [n \in 1..(c.fields[f].np * c.fields[f].dim) |-> n - 1]
IndicesEai(c) == \A f \in 1..Len(c.fields) :
                    \A k \in 1..Len(c.fields[f].cells) : \A a \in 1..Len(c.fields[f].cells[k]) : \A i \in Comps(c, f) :
                       c.fields[f].eai[k][(a - 1) * c.fields[f].dim + i + 1] = c.fields[f].dim * c.fields[f].cells[k][a] + i

\* ---- predefined load cases on a lattice mesh (single field): documented planes and components
\* r.coords[p+1][k] integer coordinates, r.dim field/mesh dim, r.args the call, observed r.dof0 / r.ext0 (scaled)
Axes(r) == 1..r.dim
MinC(r, k) == CHOOSE m \in {r.coords[p][k] : p \in 1..Len(r.coords)} : \A p \in 1..Len(r.coords) : r.coords[p][k] >= m
MaxC(r, k) == CHOOSE m \in {r.coords[p][k] : p \in 1..Len(r.coords)} : \A p \in 1..Len(r.coords) : r.coords[p][k] <= m
OnPlane(r, k, v) == {p \in 0..(Len(r.coords) - 1) : r.coords[p + 1][k] = v}
Fix(r, pts, comps, v) == {<<r.dim * p + (i - 1), v>> : <<p, i>> \in pts \X comps}
\* symmetry: on the plane x_k = 0 the normal component k is fixed
Sym(r, flags) == UNION {Fix(r, OnPlane(r, k, 0), {k}, 0) : k \in {k \in Axes(r) : flags[k] = 1}}
Others(r, S) == Axes(r) \ S

ExpectedUniaxial(r) ==
  LET a == r.args.axis + 1  lft == MinC(r, a)  rgt == MaxC(r, a) IN
  Sym(r, r.args.sym)
  \cup (IF r.args.sym[a] = 0 THEN Fix(r, OnPlane(r, a, lft), {a}, 0) ELSE {})
  \cup (IF r.args.clamped THEN Fix(r, OnPlane(r, a, rgt), Others(r, {a}), 0) ELSE {})
  \cup (IF r.args.clamped /\ r.args.sym[a] = 0 THEN Fix(r, OnPlane(r, a, lft), Others(r, {a}), 0) ELSE {})
  \cup Fix(r, OnPlane(r, a, rgt), {a}, r.args.move)

\* biaxial: right faces move by +m; without symmetry the left faces move the opposite way.  The docstring
\* ("applied each one half of the value at the left and right end faces") does not fix whether the
\* left/right values are -+m or -+m/2; r.half selects the reading and both are accepted (see ExpectedHolds)
ExpectedBiaxial(r, half) ==
  LET ax == <<r.args.axes[1] + 1, r.args.axes[2] + 1>>
      mv(n) == IF half THEN r.args.moves[n] \div 2 ELSE r.args.moves[n] IN
  Sym(r, r.args.sym)
  \cup UNION {(IF r.args.sym[ax[n]] = 0 THEN Fix(r, OnPlane(r, ax[n], MinC(r, ax[n])), {ax[n]}, -mv(n)) ELSE {}) : n \in 1..2}
  \cup UNION {(IF r.args.clampes[n] THEN Fix(r, OnPlane(r, ax[n], MaxC(r, ax[n])), Others(r, {ax[n]}), 0) ELSE {}) : n \in 1..2}
  \cup UNION {(IF r.args.clampes[n] /\ r.args.sym[ax[n]] = 0 THEN Fix(r, OnPlane(r, ax[n], MinC(r, ax[n])), Others(r, {ax[n]}), 0) ELSE {}) : n \in 1..2}
  \cup UNION {Fix(r, OnPlane(r, ax[n], MaxC(r, ax[n])), {ax[n]}, IF r.args.sym[ax[n]] = 0 THEN mv(n) ELSE r.args.moves[n]) : n \in 1..2}

\* shear: bottom face fixed (compression component = moves[2]); top face: shear = moves[1],
\* compression = moves[3], thickness component fixed; optional symmetry in the thickness direction
ExpectedShear(r) ==
  LET s == r.args.axes[1] + 1  cax == r.args.axes[2] + 1
      bot == OnPlane(r, cax, MinC(r, cax))  top == OnPlane(r, cax, MaxC(r, cax)) IN
  (IF r.args.sym THEN Sym(r, [k \in Axes(r) |-> IF k \in {s, cax} THEN 0 ELSE 1]) ELSE {})
  \cup Fix(r, bot, Others(r, {cax}), 0) \cup Fix(r, bot, {cax}, r.args.moves[2])
  \cup Fix(r, top, Others(r, {s, cax}), 0) \cup Fix(r, top, {cax}, r.args.moves[3]) \cup Fix(r, top, {s}, r.args.moves[1])

ExpectedSymmetry(r) == Sym(r, r.args.sym)

Observed(r) == {<<r.dof0[n], r.ext0[n]>> : n \in 1..Len(r.dof0)}
\* a later boundary overrides an earlier one on a shared unknown: the expected map may list two values
\* for an unknown only if they agree, otherwise the case is outside the documented semantics
Functional(S) == \A u, v \in S : u[1] = v[1] => u[2] = v[2]
LoadCaseExact(r) ==
  CASE r.lc = "symmetry" -> Observed(r) = ExpectedSymmetry(r)
    [] r.lc = "uniaxial" -> Observed(r) = ExpectedUniaxial(r)
    [] r.lc = "shear" -> Observed(r) = ExpectedShear(r)
    [] r.lc = "biaxial" -> Observed(r) = ExpectedBiaxial(r, FALSE) \/ Observed(r) = ExpectedBiaxial(r, TRUE)
LoadCaseWellPosed(r) ==
  CASE r.lc = "symmetry" -> TRUE
    [] r.lc = "uniaxial" -> Functional(ExpectedUniaxial(r))
    [] r.lc = "shear" -> Functional(ExpectedShear(r))
    [] r.lc = "biaxial" -> Functional(ExpectedBiaxial(r, FALSE))
LoadCasePartition(r) == /\ ToSet(r.dof0) \cap ToSet(r.dof1) = {}
                        /\ ToSet(r.dof0) \cup ToSet(r.dof1) = 0..(Len(r.coords) * r.dim - 1)

Clauses(c) == CASE c.kind = "partition" -> {"Disjoint", "Cover", "Dof0Exact", "Dof1Exact", "Ext0Exact", "BoundaryDofs", "BoundaryPoints"}
                [] c.kind = "numbering" -> {"ValuesOrder", "UpdateSplit", "AssemblyRow", "IndicesDof", "IndicesEai"}
                [] c.kind = "loadcase" -> IF LoadCaseWellPosed(c) THEN {"LoadCaseExact", "LoadCasePartition"} ELSE {"LoadCasePartition"}
Holds(cl, c) == CASE cl = "Disjoint" -> Disjoint(c) [] cl = "Cover" -> Cover(c)
                  [] cl = "Dof0Exact" -> Dof0Exact(c) [] cl = "Dof1Exact" -> Dof1Exact(c)
                  [] cl = "Ext0Exact" -> Ext0Exact(c)
                  [] cl = "BoundaryDofs" -> BoundaryDofs(c) [] cl = "BoundaryPoints" -> BoundaryPoints(c)
                  [] cl = "ValuesOrder" -> ValuesOrder(c) [] cl = "UpdateSplit" -> UpdateSplit(c)
                  [] cl = "AssemblyRow" -> AssemblyRow(c)
                  [] cl = "IndicesDof" -> IndicesDof(c) [] cl = "IndicesEai" -> IndicesEai(c)
                  [] cl = "LoadCaseExact" -> LoadCaseExact(c) [] cl = "LoadCasePartition" -> LoadCasePartition(c)
Applicable(c) == Clauses(c)
Failing(c) == {cl \in Clauses(c) : ~Holds(cl, c)}
=============================================================================
