------------------------------ MODULE MeshOpsMC ------------------------------
(* Program space of C16: every finite sequence of mesh operations applicable  *)
(* to the current cell type, from the generator seeds, up to depth MaxDepth.  *)
(* TLC explores the type-state machine exhaustively, checks the typing        *)
(* invariants (dimension / cell-type bookkeeping the relations of MeshOps.tla *)
(* rely on) and exports every program; the driver runs each program through   *)
(* the real Mesh methods and MeshOps.tla judges every step.                   *)
EXTENDS MeshOps

CONSTANTS MaxDepth
VARIABLES type, dim, order, prog
vars == <<type, dim, order, prog>>

Seeds == {<<"Line", "line", 1>>, <<"Rectangle", "quad", 2>>, <<"Cube", "hexahedron", 3>>, <<"Grid2", "quad", 2>>, <<"Grid3", "hexahedron", 3>>,
          <<"Trapezoid", "quad", 2>>, <<"TrapezoidPrism", "hexahedron", 3>>,
          \* the same grids from INTEGER coordinate vectors (np.arange): what comes later must not depend on the input's number type
          <<"GridInt2", "quad", 2>>, <<"GridInt3", "hexahedron", 3>>}
Init == \E s \in Seeds : type = s[2] /\ dim = s[3] /\ order = 1 /\ prog = <<s[1]>>

Step(op, t2, d2, o2) == /\ Len(prog) <= MaxDepth /\ type' = t2 /\ dim' = d2 /\ order' = o2 /\ prog' = Append(prog, op)
\* order: 1 linear cells, 2 quadratic cell types, 3 point sets without a cell type (face / volume mid-points only, cell centroids):
\* nothing but the typing invariants applies to these any further
Rigid == order <= 2 /\
         \/ (dim >= 2 /\ \E ax \in 0..(IF dim = 2 THEN 0 ELSE 2) : Step("rotate90:" \o ToString(IF dim = 2 THEN 2 ELSE ax), type, dim, order))
         \/ \E ax \in 0..(dim - 1) : Step("translate:" \o ToString(ax), type, dim, order)
         \* mirror is documented for the linear cell types only (it re-flips the cells)
         \/ (order = 1 /\ \E ax \in 0..(dim - 1) : Step("mirror:" \o ToString(ax), type, dim, order))
         \/ (order = 1 /\ dim >= 2 /\ Step("mirrordiag", type, dim, order))
Flip == order = 1 /\ type # "line" /\ Step("flip2", type, dim, order)
Triangulate == order = 1 /\ type \in {"quad", "hexahedron"}
               /\ \E mode \in {0, 3} : Step("triangulate:" \o ToString(mode), IF type = "quad" THEN "triangle" ELSE "tetra", dim, 1)
Expand == order = 1 /\ type \in {"line", "quad"} /\ dim = (IF type = "line" THEN 1 ELSE 2)
          /\ \E n \in {2, 3} : Step("expand:" \o ToString(n), IF type = "line" THEN "quad" ELSE "hexahedron", dim + 1, 1)
Revolve == order = 1 /\ type = "quad" /\ dim = 2
           /\ \E a \in {0, 1}, n \in {2, 3} : Step("revolve:" \o ToString(a) \o ":" \o ToString(n), "hexahedron", 3, 1)
Midpoints == order = 1 /\ type \in {"quad", "hexahedron", "triangle", "tetra"}
             /\ \/ Step("midedges", CASE type = "quad" -> "quad8" [] type = "hexahedron" -> "hexahedron20"
                                      [] type = "triangle" -> "triangle6" [] type = "tetra" -> "tetra10", dim, 2)
                \/ (type \in {"quad", "hexahedron"} /\ Step("convertfull", IF type = "quad" THEN "quad9" ELSE "hexahedron27", dim, 2))
                \/ Step("midfaces", type, dim, 3)
                \/ (type \in {"hexahedron", "tetra"} /\ Step("midvolumes", type, dim, 3))
                \/ Step("centroids", type, dim, 3)
Combine == order = 1 /\ (Step("concatmerge", type, dim, order) \/ Step("stack", type, dim, order) \/ Step("disconnect", type, dim, order)
                         \/ Step("dupcells", type, dim, order))
\* a line mesh (embedded in the plane) filled towards a scaled and shifted copy of itself
FillBetween == order = 1 /\ type = "line" /\ dim = 1 /\ \E n \in {2, 3} : Step("fillbetween:" \o ToString(n), "quad", 2, 1)
Next == Rigid \/ Flip \/ Triangulate \/ Expand \/ Revolve \/ Midpoints \/ Combine \/ FillBetween
Spec == Init /\ [][Next]_vars

\* typing invariants
TypeDim == /\ Base(type) = "line" => dim \in 1..2
           /\ Base(type) \in {"quad", "triangle"} => dim \in 2..3
           /\ Base(type) \in {"hexahedron", "tetra"} => dim = 3
OrderMatches == (order = 2) = (type \notin {"line", "quad", "hexahedron", "triangle", "tetra"})
RECURSIVE Join(_, _)
Join(sq, sep) == IF Len(sq) = 1 THEN sq[1] ELSE sq[1] \o sep \o Join(Tail(sq), sep)
Dump == PrintT("PROGRAM|" \o Join(prog, ","))
=============================================================================
