SPECIFICATION Spec
CONSTANT MaxDepth = 10
INVARIANTS WF Dump
CHECK_DEADLOCK FALSE
