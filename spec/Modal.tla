-------------------------------- MODULE Modal --------------------------------
(* C18 -- modal analysis returns genuine eigenpairs of the constrained K / M   *)
(* pencil.  K and M are RE-ASSEMBLED by the driver from the items (not taken   *)
(* from the job) and logged densely on the free unknowns (scale 2^20); modes   *)
(* at 2^20, eigenvalues at 2^16.  TLC forms K v and lambda M v itself.         *)
EXTENDS FixedPoint, TLC
S == 1048576
MK(a, b) == MulL(a, b, 1024)         \* (2^20-scaled matrix entry) * (2^20 vector entry) -> 2^20
ML(a, b) == MulL(a, b, 256)          \* (2^16-scaled eigenvalue)   * (2^20 entry)        -> 2^20
Kv(r, v, i) == SumOver(1..r.n1, LAMBDA j : MK(r.K[(i - 1) * r.n1 + j], v[j]))
Mv(r, v, i) == SumOver(1..r.n1, LAMBDA j : MK(r.M[(i - 1) * r.n1 + j], v[j]))
\* K v = lambda M v on the free unknowns, for every returned pair
\* lambda (M v) is formed as sum_j (lambda M_ij) v_j so that the truncation error of each product (<= 3 ulp) is not amplified by lambda
LMv(r, lam, v, i) == SumOver(1..r.n1, LAMBDA j : MK(ML(lam, r.M[(i - 1) * r.n1 + j]), v[j]))
Eigenpair(r) == \A k \in 1..Len(r.lam) : \A i \in 1..r.n1 :
                   Abs(Kv(r, r.vec[k], i) - LMv(r, r.lam[k], r.vec[k], i)) <= r.tol + 16 * r.n1 + Abs(Kv(r, r.vec[k], i)) \div 8192
\* the mode is not the trivial vector
ModeNonTrivial(r) == \A k \in 1..Len(r.lam) : MaxAbsSeq(r.vec[k]) >= S \div 64
\* extracted mode shapes vanish on all prescribed unknowns and carry the eigenvector on the free ones
ModeVanishesOnDof0(r) == \A k \in 1..Len(r.ext) :
                            /\ \A n \in 1..Len(r.dof0) : r.ext[k][r.dof0[n] + 1] = 0
                            /\ \A n \in 1..Len(r.dof1) : r.ext[k][r.dof1[n] + 1] = r.vec[k][n]
\* reported frequency: (2 pi f)^2 = lambda     (4 pi^2 = 39.4784176... at scale 2^20)
FourPiSq == 41396121
MS(a, b) == MulL(a, b, 1024)
Frequency(r) == \A k \in 1..Len(r.freq) : Abs(MS(MS(r.freq[k], r.freq[k]), FourPiSq) - 16 * r.lam[k]) <= 256 + Abs(16 * r.lam[k]) \div 4096
\* an unconstrained linear-elastic body has exactly nrigid zero-frequency modes (3 in 2-d, 6 in 3-d)
RigidModes(r) == /\ \A k \in 1..r.nrigid : Abs(r.lam[k]) <= r.zerotol
                 /\ \A k \in (r.nrigid + 1)..Len(r.lam) : r.lam[k] > 64 * r.zerotol
\* the spectrum is invariant under a rigid motion of the mesh
RigidMotionInvariance(r) == \A k \in 1..Len(r.lam) : Abs(r.lam[k] - r.lammoved[k]) <= r.zerotol + Abs(r.lam[k]) \div 4096
\* extra fields of a mixed container carry no mass
ExtraFieldsNoMass(r) == \A n \in 1..Len(r.Mextra) : r.Mextra[n] = 0
Clauses(r) == CASE r.kind = "pairs" -> {"Eigenpair", "ModeNonTrivial", "ModeVanishesOnDof0", "Frequency"}
                [] r.kind = "rigid" -> {"RigidModes", "RigidMotionInvariance"}
                [] r.kind = "mixed" -> {"Eigenpair", "ModeNonTrivial", "ExtraFieldsNoMass"}
Holds(c, r) == CASE c = "Eigenpair" -> Eigenpair(r) [] c = "ModeNonTrivial" -> ModeNonTrivial(r)
                 [] c = "ModeVanishesOnDof0" -> ModeVanishesOnDof0(r) [] c = "Frequency" -> Frequency(r)
                 [] c = "RigidModes" -> RigidModes(r) [] c = "RigidMotionInvariance" -> RigidMotionInvariance(r)
                 [] c = "ExtraFieldsNoMass" -> ExtraFieldsNoMass(r)
\* total verdicts: the numeric clauses presuppose consistent shapes (as many eigenvector entries as free unknowns of the partition
\* computed from the boundaries, square blocks); a mismatch is itself the verdict
ShapesConsistent(r) ==
  IF r.kind \in {"pairs", "mixed"}
  THEN /\ Len(r.K) = r.n1 * r.n1 /\ Len(r.M) = r.n1 * r.n1 /\ Len(r.vec) = Len(r.lam)
       /\ \A k \in 1..Len(r.vec) : Len(r.vec[k]) = r.n1
       /\ (r.kind = "pairs" => /\ Len(r.ext) = Len(r.lam) /\ Len(r.freq) = Len(r.lam) /\ Len(r.dof1) = r.n1
                                /\ \A k \in 1..Len(r.ext) : Len(r.ext[k]) = Len(r.dof0) + Len(r.dof1))
  ELSE Len(r.lam) = Len(r.lammoved)
Applicable(r) == Clauses(r) \cup {"ShapesConsistent"}
Failing(r) == IF ~ShapesConsistent(r) THEN {"ShapesConsistent"} ELSE {c \in Clauses(r) : ~Holds(c, r)}
\* reference: K = diag(2, 3), M = diag(1, 2): pairs (2, e1), (3/2, e2)
RefM == [kind |-> "pairs", n1 |-> 2, tol |-> 8, K |-> <<2 * S, 0, 0, 3 * S>>, M |-> <<S, 0, 0, 2 * S>>,
         lam |-> <<2 * 65536, 98304>>, vec |-> << <<S, 0>>, <<0, S>> >>, ext |-> << <<0, S, 0>>, <<0, 0, S>> >>, dof0 |-> <<0>>, dof1 |-> <<1, 2>>,
         freq |-> <<236013, 204393>>]
ASSUME Failing(RefM) = {}
ASSUME Failing([RefM EXCEPT !.lam[1] = 3 * 65536]) = {"Eigenpair", "Frequency"}
ASSUME Failing([RefM EXCEPT !.ext[1] = <<5, S, 0>>]) = {"ModeVanishesOnDof0"}
=============================================================================
