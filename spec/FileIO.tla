------------------------------- MODULE FileIO -------------------------------
(* C20 -- result and mesh files contain exactly what was computed.            *)
(* Laws over records logged by harness/vh/drivers/d20.py after writing files  *)
(* with the real API and reading them back.  Bit-exact quantities are logged  *)
(* as IEEE-754 hex strings (TLC compares strings), derived quantities as      *)
(* fixed-point integers with a stated tolerance.                              *)
(* The frame SEQUENCE refines Solver.tla's frame log: a frames record of a    *)
(* replayed model behaviour carries the number of results the model predicts. *)
EXTENDS FixedPoint, TLC

SeqEq(a, b) == Len(a) = Len(b) /\ \A n \in 1..Len(a) : a[n] = b[n]
SeqNear(a, b, tol) == Len(a) = Len(b) /\ \A n \in 1..Len(a) : Abs(a[n] - b[n]) <= tol

\* ---- roundtrip: mesh written and read back
\* r.pw / r.pr : points written / read (hex, row major), r.dim written dimension (read back padded to 3)
PaddedPoints(r) ==
  /\ Len(r.pr) = r.npoints * 3 /\ Len(r.pw) = r.npoints * r.dim
  /\ \A p \in 1..r.npoints : \A k \in 1..3 :
        r.pr[(p - 1) * 3 + k] = (IF k <= r.dim THEN r.pw[(p - 1) * r.dim + k] ELSE "0000000000000000")
\* read with dim = r.dim cuts the padding again
CutPoints(r) == SeqEq(r.pc, r.pw)
SameCells(r) == SeqEq(r.cw, r.cr)
SameCellType(r) == r.tw = r.tr /\ r.nblocks = 1

\* ---- shared: container read with merge refers to one point array
SharedPoints(r) == \A n \in 1..Len(r.objs) : r.objs[n] = r.container

\* ---- frames: one time frame per converged substep, in order, with that substep's displacement
FrameCount(r) == Len(r.fileu) = Len(r.cbu) /\ (r.expect >= 0 => Len(r.fileu) = r.expect)
FrameOrder(r) == \A n \in 1..Len(r.times) : r.times[n] = n - 1
FrameDisplacement(r) == \A n \in 1..Len(r.fileu) : n <= Len(r.cbu) => r.fileu[n] = r.cbu[n]
\* documented cell data: quadrature-point means of deformation gradient / logarithmic strain
FrameCellData(r) ==
  \A n \in 1..Len(r.filecd) : n <= Len(r.cbcd) =>
     \A key \in DOMAIN r.filecd[n] : key \in DOMAIN r.cbcd[n] /\ SeqNear(r.filecd[n][key], r.cbcd[n][key], r.tol)
FrameCellKeys(r) == \A n \in 1..Len(r.filecd) : \A k \in 1..Len(r.keys) : r.keys[k] \in DOMAIN r.filecd[n]
\* exactly the documented data sets are written: the default ones iff their flag is on, plus the user's callbacks
\* (documented default data sets: present iff their flag is on; the user's data sets: present.  A data set the documentation of
\* this snapshot does not know is not judged here -- FrameKeysNoExtras, reported as specification drift only)
Documented == {"Deformation Gradient", "Principal Values of Logarithmic Strain", "Logarithmic Strain", "Displacement"}
FrameKeysExact(r) == \A n \in 1..Len(r.cdkeys) :
                        /\ ToSet(r.expectcd) \subseteq ToSet(r.cdkeys[n]) /\ (ToSet(r.cdkeys[n]) \cap Documented) \subseteq ToSet(r.expectcd)
                        /\ ToSet(r.expectpd) \subseteq ToSet(r.pdkeys[n]) /\ (ToSet(r.pdkeys[n]) \cap Documented) \subseteq ToSet(r.expectpd)
FrameKeysNoExtras(r) == \A n \in 1..Len(r.cdkeys) : ToSet(r.cdkeys[n]) = ToSet(r.expectcd) /\ ToSet(r.pdkeys[n]) = ToSet(r.expectpd)
FrameCustomData(r) ==
  \A n \in 1..Len(r.filepd) : n <= Len(r.cbpd) =>
     \A key \in DOMAIN r.cbpd[n] : key \in DOMAIN r.filepd[n] /\ SeqEq(r.filepd[n][key], r.cbpd[n][key])

\* ---- save: displacements and reaction forces written unchanged
\* the file felupe wrote can be read back at all (by the trusted reader); the content clauses presuppose it
SaveReadable(r) == r.readable
SaveDisplacement(r) == SeqEq(r.uw, r.ur)
SaveReaction(r) == SeqEq(r.fw, r.fr)

Clauses(r) == CASE r.kind = "roundtrip" -> {"PaddedPoints", "CutPoints", "SameCells", "SameCellType"}
                [] r.kind = "shared" -> {"SharedPoints"}
                [] r.kind = "frames" -> {"FrameCount", "FrameOrder", "FrameDisplacement", "FrameCellData", "FrameCellKeys", "FrameCustomData", "FrameKeysExact", "FrameKeysNoExtras"}
                [] r.kind = "save" -> IF r.readable THEN {"SaveReadable", "SaveDisplacement", "SaveReaction"} ELSE {"SaveReadable"}
Holds(c, r) == CASE c = "PaddedPoints" -> PaddedPoints(r) [] c = "CutPoints" -> CutPoints(r)
                 [] c = "SameCells" -> SameCells(r) [] c = "SameCellType" -> SameCellType(r)
                 [] c = "SharedPoints" -> SharedPoints(r)
                 [] c = "FrameCount" -> FrameCount(r) [] c = "FrameOrder" -> FrameOrder(r)
                 [] c = "FrameDisplacement" -> FrameDisplacement(r) [] c = "FrameCellData" -> FrameCellData(r)
                 [] c = "FrameCellKeys" -> FrameCellKeys(r) [] c = "FrameCustomData" -> FrameCustomData(r) [] c = "FrameKeysExact" -> FrameKeysExact(r) [] c = "FrameKeysNoExtras" -> FrameKeysNoExtras(r)
                 [] c = "SaveReadable" -> SaveReadable(r) [] c = "SaveDisplacement" -> SaveDisplacement(r) [] c = "SaveReaction" -> SaveReaction(r)
Applicable(r) == Clauses(r)
Failing(r) == {c \in Clauses(r) : ~Holds(c, r)}

\* ---- reference instances / negatives
Z == "0000000000000000"
One == "3ff0000000000000"
RefRT == [kind |-> "roundtrip", npoints |-> 2, dim |-> 2, pw |-> <<Z, One, One, One>>, pr |-> <<Z, One, Z, One, One, Z>>,
          pc |-> <<Z, One, One, One>>, cw |-> <<0, 1>>, cr |-> <<0, 1>>, tw |-> "line", tr |-> "line", nblocks |-> 1]
RefFR == [kind |-> "frames", expect |-> 2, times |-> <<0, 1>>, fileu |-> <<"aa", "bb">>, cbu |-> <<"aa", "bb">>, tol |-> 2,
          keys |-> <<"F">>, filecd |-> << [F |-> <<10, 20>>], [F |-> <<11, 21>>] >>, cbcd |-> << [F |-> <<10, 21>>], [F |-> <<11, 21>>] >>,
          filepd |-> << [my |-> <<One>>], [my |-> <<Z>>] >>, cbpd |-> << [my |-> <<One>>], [my |-> <<Z>>] >>,
          cdkeys |-> << <<"F">>, <<"F">> >>, pdkeys |-> << <<"Displacement", "my">>, <<"my", "Displacement">> >>, expectcd |-> <<"F">>, expectpd |-> <<"my", "Displacement">>]
ASSUME Failing([RefFR EXCEPT !.expectcd = <<>>]) = {"FrameKeysNoExtras"}
ASSUME Failing([RefFR EXCEPT !.expectpd = <<"my">>]) = {"FrameKeysExact", "FrameKeysNoExtras"}
ASSUME Failing(RefRT) = {} /\ Failing(RefFR) = {}
ASSUME Failing([RefRT EXCEPT !.pr[3] = One]) = {"PaddedPoints"}
ASSUME Failing([RefRT EXCEPT !.cr = <<1, 0>>]) = {"SameCells"}
ASSUME Failing([RefRT EXCEPT !.tr = "quad"]) = {"SameCellType"}
ASSUME Failing([RefFR EXCEPT !.fileu = <<"aa">>, !.times = <<0>>, !.filecd = << [F |-> <<10, 20>>] >>, !.filepd = << [my |-> <<One>>] >>,
                             !.cdkeys = << <<"F">> >>, !.pdkeys = << <<"Displacement", "my">> >>]) = {"FrameCount"}
ASSUME Failing([RefFR EXCEPT !.fileu = <<"bb", "aa">>]) = {"FrameDisplacement"}
ASSUME Failing([RefFR EXCEPT !.times = <<1, 2>>]) = {"FrameOrder"}
ASSUME Failing([RefFR EXCEPT !.filecd[2] = [F |-> <<11, 30>>]]) = {"FrameCellData"}
ASSUME Failing([RefFR EXCEPT !.keys = <<"F", "G">>]) = {"FrameCellKeys"}
ASSUME Failing([RefFR EXCEPT !.filepd[1] = [my |-> <<Z>>]]) = {"FrameCustomData"}
=============================================================================
