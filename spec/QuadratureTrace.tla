-------------------------- MODULE QuadratureTrace --------------------------
(* C05 trace validation: records produced by harness/vh/drivers/d05.py from   *)
(* the real felupe quadrature classes.                                        *)
EXTENDS Quadrature, Json, IOUtils
TraceData == ndJsonDeserialize(IOEnv.TRACE_FILE)
VARIABLES l, bad, cnt
R == INSTANCE LawRun WITH Trace <- TraceData, Failing <- Failing, Applicable <- Applicable
Spec == R!Spec
Consumed == R!Consumed
=============================================================================
