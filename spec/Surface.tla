------------------------------- MODULE Surface -------------------------------
(* C13 -- boundary regions describe closed surfaces consistently with the     *)
(* volume.                                                                    *)
(*                                                                            *)
(* (1) Table laws.  The hard-coded face tables are EXTRACTED from the working *)
(* tree (boundary_cells_* called on an identity cell) and judged here on the  *)
(* reference cell as an incidence structure: node coordinates X[a] in         *)
(* {-1,0,1}^d, its proper rotation group Rot (signed permutation matrices of  *)
(* determinant +1: 4 in 2-d, 24 in 3-d).  Boundary quantities are evaluated   *)
(* on the quadrature face  {r_d = -1}  of a re-numbered ("rotated") cell.     *)
(* On that face only the shape functions of the nodes lying on it (and their  *)
(* in-face derivatives) are non-zero, so dA, normals, tangents and fluxes     *)
(* depend on exactly these nodes.  If for face f there is R in Rot with       *)
(*      X[ cells[f][a] ] = R X[a]     for every node a on the quadrature face *)
(* then by equivariance of the isoparametric face map the area vector of the  *)
(* rotated cell is R applied to that of the quadrature face, i.e. outward on  *)
(* face f, for every valid mesh.                                              *)
(* (2) Selection laws (surface = faces whose node set occurs once; mask).     *)
(* (3) Geometric laws on logged arrays (unit normals, tangents, closure,      *)
(* divergence theorem, per-cell closure, outward orientation, 3-d padding).   *)
EXTENDS FixedPoint, TLC

\* ------------------------------------------------------------ rotation group
Perms(d) == {p \in [1..d -> 1..d] : \A i, j \in 1..d : i # j => p[i] # p[j]}
Inversions(p) == Cardinality({ij \in (DOMAIN p) \X (DOMAIN p) : ij[1] < ij[2] /\ p[ij[1]] > p[ij[2]]})
Signs(d) == [1..d -> {-1, 1}]
Det(p, s) == (IF Inversions(p) % 2 = 0 THEN 1 ELSE -1) * FoldSet(LAMBDA i, acc : s[i] * acc, 1, DOMAIN s)
Rot(d) == {ps \in Perms(d) \X Signs(d) : Det(ps[1], ps[2]) = 1}
Apply(R, x) == [i \in DOMAIN x |-> R[2][i] * x[R[1][i]]]

\* ---------------------------------------------------------------- table laws
\* r.X[a+1] node coordinates, r.cells[f][a+1], r.faces[f][n]: zero-based local node ids
Nodes(r) == 0..(r.nn - 1)
Xc(r, a) == r.X[a + 1]
OnQFace(r, a) == Xc(r, a)[r.dim] = -1
QFace(r) == {a \in Nodes(r) : OnQFace(r, a)}
IsRotationOnFace(r, f, R) == \A a \in QFace(r) : Xc(r, r.cells[f][a + 1]) = Apply(R, Xc(r, a))
FaceTableIsRotationOnFace(r) == \A f \in 1..Len(r.cells) : \E R \in Rot(r.dim) : IsRotationOnFace(r, f, R)
\* the signed axis <<k, s>> on which all nodes of faces[f] lie
OutDirs(r, f) == {ks \in (1..r.dim) \X {-1, 1} : \A n \in 1..Len(r.faces[f]) : Xc(r, r.faces[f][n])[ks[1]] = ks[2]}
IsCorner(r, a) == \A k \in 1..r.dim : Xc(r, a)[k] \in {-1, 1}
FaceNodes(r) ==
  \A f \in 1..Len(r.faces) :
     /\ Cardinality(OutDirs(r, f)) = 1
     /\ LET ks == CHOOSE ks \in OutDirs(r, f) : TRUE IN
          /\ ToSet(r.faces[f]) = {a \in Nodes(r) : Xc(r, a)[ks[1]] = ks[2]}
          /\ ToSet(r.faces[f]) = {r.cells[f][a + 1] : a \in QFace(r)}
     /\ \A n \in 1..Len(r.faces[f]) : (n <= r.ncorner) = IsCorner(r, r.faces[f][n])
AllFacesOnce(r) ==
  /\ Len(r.faces) = 2 * r.dim
  /\ Cardinality(UNION {OutDirs(r, f) : f \in 1..Len(r.faces)}) = 2 * r.dim
\* every rotated cell is a re-numbering (permutation) of the cell's nodes
CellsArePermutations(r) == \A f \in 1..Len(r.cells) : ToSet(r.cells[f]) = Nodes(r) /\ Len(r.cells[f]) = r.nn

\* ------------------------------------------------------------ selection laws
\* r.mcells[c][a+1] mesh cells, r.ftab[f][n] extracted face table (local ids), r.sel[..] observed face node lists
FaceOf(r, c, f) == {r.mcells[c][r.ftab[f][n] + 1] : n \in 1..Len(r.ftab[f])}
AllFaces(r) == {cf \in (1..Len(r.mcells)) \X (1..Len(r.ftab)) : TRUE}
Once(r, cf) == Cardinality({dg \in AllFaces(r) : FaceOf(r, dg[1], dg[2]) = FaceOf(r, cf[1], cf[2])}) = 1
InMask(r, S) == \A p \in S : r.mask[p + 1] = 1
ExpectedSel(r) == {FaceOf(r, cf[1], cf[2]) : cf \in {cf \in AllFaces(r) : (r.onlysurface => Once(r, cf)) /\ InMask(r, FaceOf(r, cf[1], cf[2]))}}
SurfaceSelection(r) == {ToSet(r.sel[n]) : n \in 1..Len(r.sel)} = ExpectedSel(r)
\* with only_surface every kept face is listed once; without it every (cell, face) pair is listed
SelectionCount(r) == Len(r.sel) = Cardinality({cf \in AllFaces(r) : (r.onlysurface => Once(r, cf)) /\ InMask(r, FaceOf(r, cf[1], cf[2]))})

\* ------------------------------------------------------------ geometric laws
\* arrays flattened face-major, then quadrature point, then component; scale r.S = 2^20
L10 == 1024
M(a, b) == MulL(a, b, L10)
Vec(r, arr, f, q) == [k \in 1..r.vdim |-> arr[((f - 1) * r.nq + (q - 1)) * r.vdim + k]]
DotV(u, v) == SumOver(DOMAIN u, LAMBDA k : M(u[k], v[k]))
FQ(r) == (1..r.nf) \X (1..r.nq)
UnitNormals(r) == \A fq \in FQ(r) : Abs(DotV(Vec(r, r.n, fq[1], fq[2]), Vec(r, r.n, fq[1], fq[2])) - r.S) <= 32
NormalIsAreaDirection(r) ==
  \A fq \in FQ(r) : \A k \in 1..r.vdim :
     Abs(M(Vec(r, r.n, fq[1], fq[2])[k], r.dV[(fq[1] - 1) * r.nq + fq[2]]) - Vec(r, r.dA, fq[1], fq[2])[k]) <= 16
TangentsUnitOrthogonal(r) ==
  \A t \in 1..Len(r.t) : \A fq \in FQ(r) :
     /\ Abs(DotV(Vec(r, r.t[t], fq[1], fq[2]), Vec(r, r.t[t], fq[1], fq[2])) - r.S) <= 32
     /\ Abs(DotV(Vec(r, r.t[t], fq[1], fq[2]), Vec(r, r.n, fq[1], fq[2]))) <= 32
\* outward: the normal points away from the centre of the cell the face belongs to
Outward(r) ==
  \A fq \in FQ(r) :
     DotV(Vec(r, r.n, fq[1], fq[2]), [k \in 1..r.vdim |-> Vec(r, r.xq, fq[1], fq[2])[k] - r.cc[(fq[1] - 1) * r.vdim + k]]) > 0
SumDA(r, F, k) == SumOver(F \X (1..r.nq), LAMBDA fq : Vec(r, r.dA, fq[1], fq[2])[k])
Closed(r) == r.closed => \A k \in 1..r.vdim : Abs(SumDA(r, 1..r.nf, k)) <= r.tol
\* flux of the position vector = space dimension * volume of the volume region
Divergence(r) ==
  r.closed => Abs(SumOver(FQ(r), LAMBDA fq : DotV(Vec(r, r.xq, fq[1], fq[2]), Vec(r, r.dA, fq[1], fq[2]))) - r.gdim * r.V) <= r.tol
\* each cell's own faces close (record taken with only_surface = FALSE: faces are listed cell by cell)
PerCellClosed(r) ==
  r.percell => \A c \in 1..(r.nf \div r.fpc) : \A k \in 1..r.vdim :
     Abs(SumDA(r, ((c - 1) * r.fpc + 1)..(c * r.fpc), k)) <= r.tol
\* ensure_3d pads the in-plane vectors of a 2-d mesh with a zero third component
Ensure3d(r) == (r.vdim = 3 /\ r.gdim = 2) =>
                 \A fq \in FQ(r) : Vec(r, r.n, fq[1], fq[2])[3] = 0 /\ Vec(r, r.dA, fq[1], fq[2])[3] = 0

Clauses(r) == CASE r.kind = "table" -> {"FaceTableIsRotationOnFace", "FaceNodes", "AllFacesOnce", "CellsArePermutations"}
                [] r.kind = "selection" -> {"SurfaceSelection", "SelectionCount"}
                [] r.kind = "surface" -> {"UnitNormals", "NormalIsAreaDirection", "TangentsUnitOrthogonal", "Outward", "Closed", "Divergence",
                                          "PerCellClosed", "Ensure3d"}
Holds(c, r) == CASE c = "FaceTableIsRotationOnFace" -> FaceTableIsRotationOnFace(r)
                 [] c = "FaceNodes" -> FaceNodes(r) [] c = "AllFacesOnce" -> AllFacesOnce(r)
                 [] c = "CellsArePermutations" -> CellsArePermutations(r)
                 [] c = "SurfaceSelection" -> SurfaceSelection(r) [] c = "SelectionCount" -> SelectionCount(r)
                 [] c = "UnitNormals" -> UnitNormals(r) [] c = "NormalIsAreaDirection" -> NormalIsAreaDirection(r)
                 [] c = "TangentsUnitOrthogonal" -> TangentsUnitOrthogonal(r)
                 [] c = "Outward" -> Outward(r) [] c = "Closed" -> Closed(r) [] c = "Divergence" -> Divergence(r)
                 [] c = "PerCellClosed" -> PerCellClosed(r) [] c = "Ensure3d" -> Ensure3d(r)
Applicable(r) == Clauses(r)
Failing(r) == {c \in Clauses(r) : ~Holds(c, r)}
=============================================================================
