--------------------------------- MODULE Post ---------------------------------
(* C19 -- projection and post-processing return the quantities they name.     *)
(* Arrays at scale S = 2^20; incidences (cells) and lattice positions exact.  *)
EXTENDS FixedPoint, TLC
S == 1048576
M(a, b) == MulL(a, b, 1024)
Near(a, b, tol) == Len(a) = Len(b) /\ \A n \in 1..Len(a) : Abs(a[n] - b[n]) <= tol
\* projecting quadrature values of a field of the region's own space returns its nodal values
ProjectReproduces(r) == Near(r.projected, r.nodal, r.tol)
\* L2 projection preserves the volume integral (any quadrature-point values):  sum v dV = sum (projected field at q) dV
Integral(v, dV) == SumOver(1..Len(dV), LAMBDA n : M(v[n], dV[n]))
ProjectPreservesIntegral(r) == \A c \in 1..Len(r.vq) : Abs(Integral(r.vq[c], r.dV) - Integral(r.pq[c], r.dV)) <= r.tol + 4 * Len(r.dV)
\* extrapolation reproduces multilinear fields at the points
ExtrapolateMultilinear(r) == Near(r.extrapolated, r.nodal, r.tol)
\* shifting to points with averaging: mean over the attached cells.  r.vals[c][a][k] value of component k at local point a of cell c
Attached(r, p) == {ca \in (1..Len(r.cells)) \X (1..Len(r.cells[1])) : r.cells[ca[1]][ca[2]] = p}
ToPointsMean(r) == \A p \in 0..(r.np - 1) : \A k \in 1..r.ncomp :
                      LET A == Attached(r, p) IN
                      A # {} => Abs(Cardinality(A) * r.tp[p * r.ncomp + k] - SumOver(A, LAMBDA ca : r.vals[ca[1]][ca[2]][k])) <= Cardinality(A) + 1
\* flag variants.  V: a single quadrature point per cell is broadcast to all points of the cell; more quadrature points than
\* points per cell are trimmed to the first ones (documented)
V(r, c, a, k) == IF Len(r.vals[c]) = 1 THEN r.vals[c][1][k] ELSE r.vals[c][a][k]
ToPointsBroadcastTrim(r) == \A p \in 0..(r.np - 1) : \A k \in 1..r.ncomp :
                      LET A == Attached(r, p) IN
                      A # {} => Abs(Cardinality(A) * r.tp[p * r.ncomp + k] - SumOver(A, LAMBDA ca : V(r, ca[1], ca[2], k))) <= Cardinality(A) + 1
\* mean = True: every point of a cell gets the cell mean (equal quadrature weights in the issued regions), then the mean over cells
\* (quadrature weights as integers r.W where they are not all equal: Gauss-Legendre order 2 -> 81 w or 729 w)
Wq(r, a) == IF "W" \in DOMAIN r THEN r.W[a] ELSE 1
CellSum(r, c, k) == SumOver(1..Len(r.vals[c]), LAMBDA a : Wq(r, a) * r.vals[c][a][k])
ToPointsCellMean(r) == \A p \in 0..(r.np - 1) : \A k \in 1..r.ncomp :
                      LET A == Attached(r, p)  nq == SumOver(1..Len(r.vals[1]), LAMBDA a : Wq(r, a)) IN
                      A # {} => Abs(nq * Cardinality(A) * r.tp[p * r.ncomp + k] - SumOver(A, LAMBDA ca : CellSum(r, ca[1], k))) <= nq * Cardinality(A) + nq
\* average = False: one row per (cell, local point), not averaged
ToPointsNoAverage(r) == LET ppc == Len(r.cells[1]) IN
                        /\ Len(r.tp) = Len(r.cells) * ppc * r.ncomp
                        /\ \A c \in 1..Len(r.cells) : \A a \in 1..ppc : \A k \in 1..r.ncomp :
                              Abs(r.tp[((c - 1) * ppc + a - 1) * r.ncomp + k] - V(r, c, a, k)) <= 1
\* extrapolation without averaging: the field's nodal value at every (cell, local point)
ExtrapolateNoAverage(r) == LET ppc == Len(r.cells[1]) IN
                           /\ Len(r.extrapolated) = Len(r.cells) * ppc * r.ncomp
                           /\ \A c \in 1..Len(r.cells) : \A a \in 1..ppc : \A k \in 1..r.ncomp :
                                 Abs(r.extrapolated[((c - 1) * ppc + a - 1) * r.ncomp + k] - r.nodal[r.cells[c][a] * r.ncomp + k]) <= r.tol
\* reported stresses: Kirchhoff = P F^T, Cauchy = P F^T / det F   (per point: 9 entries, J scalar)
T2(a, p, i, j) == a[(p - 1) * 9 + 3 * (i - 1) + j]
I3 == (1..3) \X (1..3)
PFt(r, p, i, j) == SumOver(1..3, LAMBDA k : M(T2(r.P, p, i, k), T2(r.F, p, j, k)))
KirchhoffIsPFt(r) == \A p \in 1..Len(r.J) : \A ij \in I3 : Abs(T2(r.kirchhoff, p, ij[1], ij[2]) - PFt(r, p, ij[1], ij[2])) <= 32
CauchyIsPFtOverJ(r) == \A p \in 1..Len(r.J) : \A ij \in I3 : Abs(M(T2(r.cauchy, p, ij[1], ij[2]), r.J[p]) - PFt(r, p, ij[1], ij[2])) <= 32
\* per-cell view data are the quadrature-point means of the named quantity: r.cd[c][k], r.qv[c][q][k]
CellDataIsMean(r) == \A c \in 1..Len(r.cd) : \A k \in 1..Len(r.cd[c]) :
                        Abs(Len(r.qv[c]) * r.cd[c][k] - SumOver(1..Len(r.qv[c]), LAMBDA q : r.qv[c][q][k])) <= Len(r.qv[c]) + 1
\* boundary force / moment: sums of nodal forces and of position-cross-force over the boundary's points (positions * r.XS exact)
BF(r, p, k) == r.f[p * r.dim + k]
BX(r, p, k) == r.x[p * r.dim + k]
ForceSum(r) == \A k \in 1..r.dim : Abs(r.force[k] - SumOver(1..Len(r.bpoints), LAMBDA n : BF(r, r.bpoints[n], k))) <= 4 + Len(r.bpoints)
MomentSum(r) ==
  IF r.dim = 3 THEN
    \A k \in 1..3 : LET a == (k % 3) + 1  b == ((k + 1) % 3) + 1 IN
       Abs(r.XS * r.moment[k] - SumOver(1..Len(r.bpoints), LAMBDA n :
             (BX(r, r.bpoints[n], a) - r.centre[a]) * BF(r, r.bpoints[n], b) - (BX(r, r.bpoints[n], b) - r.centre[b]) * BF(r, r.bpoints[n], a)))
          <= r.XS * (8 + 4 * Len(r.bpoints))
  ELSE Abs(r.XS * r.moment[1] - SumOver(1..Len(r.bpoints), LAMBDA n :
             (BX(r, r.bpoints[n], 1) - r.centre[1]) * BF(r, r.bpoints[n], 2) - (BX(r, r.bpoints[n], 2) - r.centre[2]) * BF(r, r.bpoints[n], 1)))
          <= r.XS * (8 + 4 * Len(r.bpoints))
Clauses(r) == CASE r.kind = "project" -> {"ProjectReproduces"} [] r.kind = "integral" -> {"ProjectPreservesIntegral"}
                [] r.kind = "extrapolate" -> {"ExtrapolateMultilinear"} [] r.kind = "topoints" -> {"ToPointsMean"}
                [] r.kind = "topoints-bt" -> {"ToPointsBroadcastTrim"} [] r.kind = "topoints-mean" -> {"ToPointsCellMean"}
                [] r.kind = "topoints-noavg" -> {"ToPointsNoAverage"} [] r.kind = "extrapolate-noavg" -> {"ExtrapolateNoAverage"}
                [] r.kind = "project-noavg" -> {"ProjectNoAverage"}
                [] r.kind = "stress" -> {"KirchhoffIsPFt", "CauchyIsPFtOverJ"} [] r.kind = "celldata" -> {"CellDataIsMean"}
                [] r.kind = "forcemoment" -> {"ForceSum", "MomentSum"} [] r.kind = "force" -> {"ForceSum"}
Holds(c, r) == CASE c = "ProjectReproduces" -> ProjectReproduces(r) [] c = "ProjectPreservesIntegral" -> ProjectPreservesIntegral(r)
                 [] c = "ExtrapolateMultilinear" -> ExtrapolateMultilinear(r) [] c = "ToPointsMean" -> ToPointsMean(r)
                 [] c = "ToPointsBroadcastTrim" -> ToPointsBroadcastTrim(r) [] c = "ToPointsCellMean" -> ToPointsCellMean(r)
                 [] c = "ToPointsNoAverage" -> ToPointsNoAverage(r) [] c = "ExtrapolateNoAverage" -> ExtrapolateNoAverage(r)
                 [] c = "ProjectNoAverage" -> ExtrapolateNoAverage(r)      \* same statement for the (discontinuous) L2 projection
                 [] c = "KirchhoffIsPFt" -> KirchhoffIsPFt(r) [] c = "CauchyIsPFtOverJ" -> CauchyIsPFtOverJ(r)
                 [] c = "CellDataIsMean" -> CellDataIsMean(r) [] c = "ForceSum" -> ForceSum(r) [] c = "MomentSum" -> MomentSum(r)
Applicable(r) == Clauses(r)
Failing(r) == {c \in Clauses(r) : ~Holds(c, r)}
\* reference: two cells sharing point 1; point means
RefTP == [kind |-> "topoints", np |-> 3, ncomp |-> 1, cells |-> << <<0, 1>>, <<1, 2>> >>, vals |-> << << <<10>>, <<20>> >>, << <<40>>, <<50>> >> >>, tp |-> <<10, 30, 50>>]
ASSUME Failing(RefTP) = {} /\ Failing([RefTP EXCEPT !.tp = <<10, 20, 50>>]) = {"ToPointsMean"}
=============================================================================
