----------------------------- MODULE TensorLaws -----------------------------
(* C17 -- batched tensor algebra equals its mathematical definition for every *)
(* batch item.  Exact definitions on INTEGER tensors: the driver feeds small  *)
(* integer tensors (all items of a record as one batch along the trailing     *)
(* axis, incl. size-one broadcast axes) through the real routines; results    *)
(* are integers or dyadic rationals and are compared exactly (scale r.S).     *)
(*                                                                            *)
(* Products are defined by index notation (Einstein summation), evaluated by  *)
(* a small evaluator over letter assignments; determinant / adjugate /        *)
(* deviator / Voigt storage / cross product by their component formulas.      *)
(* A tensor of order n and dimension d is logged flat in C order, the batch   *)
(* index last:  T[item][i1..in] = flat[((i1 d + i2) d + ...) nb + item].      *)
EXTENDS FixedPoint, TLC

\* component (zero-based index tuple idx) of batch item b (1-based) of a logged tensor t = [v, nb, d]
RECURSIVE Lin(_, _, _)
Lin(idx, d, n) == IF n = 0 THEN 0 ELSE Lin(idx, d, n - 1) * d + idx[n]
At(t, idx, b) == t.v[Lin(idx, t.d, Len(idx)) * t.nb + (IF t.nb = 1 THEN 1 ELSE b)]
Idx(d, n) == [1..n -> 0..(d - 1)]

\* ---- Einstein summation  out[o] = sum over the letters not in o of  A[sa] * B[sb]
Chars(s) == {s[n] : n \in 1..Len(s)}
Einsum(sa, sb, so, A, B, d, o, b) ==
  LET letters == Chars(sa) \cup Chars(sb)
      free == Chars(so)
      asg == {f \in [letters -> 0..(d - 1)] : \A n \in 1..Len(so) : f[so[n]] = o[n]}
  IN SumOver(asg, LAMBDA f : At(A, [n \in 1..Len(sa) |-> f[sa[n]]], b) * At(B, [n \in 1..Len(sb) |-> f[sb[n]]], b))
Einsum1(sa, so, A, d, o, b) ==
  LET letters == Chars(sa)
      asg == {f \in [letters -> 0..(d - 1)] : \A n \in 1..Len(so) : f[so[n]] = o[n]}
  IN SumOver(asg, LAMBDA f : At(A, [n \in 1..Len(sa) |-> f[sa[n]]], b))

\* index notation of every product routine and mode (letters as strings of length one)
Subs(op, mode) ==
  CASE op = "dot" /\ mode = <<2, 2>> -> <<<<"i", "k">>, <<"k", "j">>, <<"i", "j">>>>
    [] op = "dot" /\ mode = <<1, 1>> -> <<<<"i">>, <<"i">>, <<>>>>
    [] op = "dot" /\ mode = <<2, 1>> -> <<<<"i", "j">>, <<"j">>, <<"i">>>>
    [] op = "dot" /\ mode = <<1, 2>> -> <<<<"i">>, <<"i", "j">>, <<"j">>>>
    [] op = "dot" /\ mode = <<2, 3>> -> <<<<"i", "m">>, <<"m", "j", "k">>, <<"i", "j", "k">>>>
    [] op = "dot" /\ mode = <<3, 2>> -> <<<<"i", "j", "m">>, <<"m", "k">>, <<"i", "j", "k">>>>
    [] op = "dot" /\ mode = <<4, 1>> -> <<<<"i", "j", "k", "l">>, <<"l">>, <<"i", "j", "k">>>>
    [] op = "dot" /\ mode = <<1, 4>> -> <<<<"i">>, <<"i", "j", "k", "l">>, <<"j", "k", "l">>>>
    [] op = "dot" /\ mode = <<2, 4>> -> <<<<"i", "m">>, <<"m", "j", "k", "l">>, <<"i", "j", "k", "l">>>>
    [] op = "dot" /\ mode = <<4, 2>> -> <<<<"i", "j", "k", "m">>, <<"m", "l">>, <<"i", "j", "k", "l">>>>
    [] op = "dot" /\ mode = <<4, 4>> -> <<<<"i", "j", "k", "p">>, <<"p", "l", "m", "n">>, <<"i", "j", "k", "l", "m", "n">>>>
    [] op = "ddot" /\ mode = <<2, 2>> -> <<<<"i", "j">>, <<"i", "j">>, <<>>>>
    [] op = "ddot" /\ mode = <<2, 4>> -> <<<<"i", "j">>, <<"i", "j", "k", "l">>, <<"k", "l">>>>
    [] op = "ddot" /\ mode = <<4, 2>> -> <<<<"i", "j", "k", "l">>, <<"k", "l">>, <<"i", "j">>>>
    [] op = "ddot" /\ mode = <<2, 3>> -> <<<<"i", "j">>, <<"i", "j", "k">>, <<"k">>>>
    [] op = "ddot" /\ mode = <<3, 2>> -> <<<<"i", "j", "k">>, <<"j", "k">>, <<"i">>>>
    [] op = "ddot" /\ mode = <<4, 4>> -> <<<<"i", "j", "k", "l">>, <<"k", "l", "m", "n">>, <<"i", "j", "m", "n">>>>
    [] op = "dddot" /\ mode = <<3, 3>> -> <<<<"i", "j", "k">>, <<"i", "j", "k">>, <<>>>>
    [] op = "dya" /\ mode = <<2>> -> <<<<"i", "j">>, <<"k", "l">>, <<"i", "j", "k", "l">>>>
    [] op = "dya" /\ mode = <<1>> -> <<<<"i">>, <<"j">>, <<"i", "j">>>>
    [] op = "cdya_ik" -> <<<<"i", "j">>, <<"k", "l">>, <<"i", "k", "j", "l">>>>
    [] op = "cdya_il" -> <<<<"i", "j">>, <<"k", "l">>, <<"i", "l", "k", "j">>>>
    [] op = "inplane" -> <<>>
Binary(r, o, b) == LET s == Subs(r.op, r.mode) IN Einsum(s[1], s[2], s[3], r.A, r.B, r.d, o, b)

\* ---- component formulas (3 x 3 written out; 2 x 2 and 1 x 1 analogous)
E(A, i, j, b) == At(A, <<i, j>>, b)
DetOf(A, d, b) ==
  CASE d = 1 -> E(A, 0, 0, b)
    [] d = 2 -> E(A, 0, 0, b) * E(A, 1, 1, b) - E(A, 0, 1, b) * E(A, 1, 0, b)
    [] d = 3 -> E(A, 0, 0, b) * (E(A, 1, 1, b) * E(A, 2, 2, b) - E(A, 1, 2, b) * E(A, 2, 1, b))
                - E(A, 0, 1, b) * (E(A, 1, 0, b) * E(A, 2, 2, b) - E(A, 1, 2, b) * E(A, 2, 0, b))
                + E(A, 0, 2, b) * (E(A, 1, 0, b) * E(A, 2, 1, b) - E(A, 1, 1, b) * E(A, 2, 0, b))
\* cofactor C_ij = (-1)^(i+j) * minor_ij ; adjugate = transpose of the cofactor matrix
Others(d, i) == (0..(d - 1)) \ {i}
Lo(S) == CHOOSE x \in S : \A y \in S : x <= y
Hi(S) == CHOOSE x \in S : \A y \in S : x >= y
Minor(A, d, i, j, b) ==
  CASE d = 1 -> 1
    [] d = 2 -> E(A, Lo(Others(2, i)), Lo(Others(2, j)), b)
    [] d = 3 -> E(A, Lo(Others(3, i)), Lo(Others(3, j)), b) * E(A, Hi(Others(3, i)), Hi(Others(3, j)), b)
                - E(A, Lo(Others(3, i)), Hi(Others(3, j)), b) * E(A, Hi(Others(3, i)), Lo(Others(3, j)), b)
Cof(A, d, i, j, b) == (IF (i + j) % 2 = 0 THEN 1 ELSE -1) * Minor(A, d, i, j, b)
Tr(A, d, b) == SumOver(0..(d - 1), LAMBDA i : E(A, i, i, b))
VoigtPairs(d) == CASE d = 1 -> << <<0, 0>> >> [] d = 2 -> << <<0, 0>>, <<1, 1>>, <<0, 1>> >>
                   [] d = 3 -> << <<0, 0>>, <<1, 1>>, <<2, 2>>, <<0, 1>>, <<1, 2>>, <<0, 2>> >>

\* expected value (times the record scale r.S, an integer) of output component o of batch item b
Expected(r, o, b) ==
  CASE r.op \in {"dot", "ddot", "dddot", "dya", "cdya_ik", "cdya_il"} -> r.S * Binary(r, o, b)
    [] r.op = "cdya" -> (r.S \div 2) * (Einsum(<<"i", "j">>, <<"k", "l">>, <<"i", "k", "j", "l">>, r.A, r.B, r.d, o, b)
                                        + Einsum(<<"i", "j">>, <<"k", "l">>, <<"i", "l", "k", "j">>, r.A, r.B, r.d, o, b))
    [] r.op = "det" -> r.S * DetOf(r.A, r.d, b)
    [] r.op = "cof" -> r.S * Cof(r.A, r.d, o[1], o[2], b)
    [] r.op = "adj" -> r.S * Cof(r.A, r.d, o[2], o[1], b)              \* det(A) * inv(A), logged by the driver as inv * det
    [] r.op = "trace" -> r.S * Tr(r.A, r.d, b)
    [] r.op = "dev" -> (r.S \div r.d) * (r.d * E(r.A, o[1], o[2], b) - (IF o[1] = o[2] THEN Tr(r.A, r.d, b) ELSE 0))
    [] r.op = "sym" -> (r.S \div 2) * (E(r.A, o[1], o[2], b) + E(r.A, o[2], o[1], b))
    [] r.op = "transpose" -> r.S * E(r.A, o[2], o[1], b)
    [] r.op = "majortranspose" -> r.S * At(r.A, <<o[3], o[4], o[1], o[2]>>, b)
    [] r.op = "cross" -> r.S * (At(r.A, <<(o[1] + 1) % 3>>, b) * At(r.B, <<(o[1] + 2) % 3>>, b)
                                - At(r.A, <<(o[1] + 2) % 3>>, b) * At(r.B, <<(o[1] + 1) % 3>>, b))
    [] r.op = "tovoigt" -> r.S * (IF r.strain /\ o[1] >= r.d THEN 2 ELSE 1) * E(r.A, VoigtPairs(r.d)[o[1] + 1][1], VoigtPairs(r.d)[o[1] + 1][2], b)
    \* squared von Mises value: 3/2 dev:dev (tensor padded to 3 x 3): 6 vm^2 = sum (3 dev_ij)^2  with trace over the padded tensor
    [] r.op = "vonmises2" -> (r.S \div 6) * SumOver((0..2) \X (0..2), LAMBDA ij :
                                LET a == IF ij[1] < r.d /\ ij[2] < r.d THEN E(r.A, ij[1], ij[2], b) ELSE 0
                                    dv == 3 * a - (IF ij[1] = ij[2] THEN Tr(r.A, r.d, b) ELSE 0) IN dv * dv)
    \* in-plane projection  A_ab = v_a . A . v_b  with the vectors logged as tensor B = [v_a]_i (order 2, first index a)
    [] r.op = "inplane" -> r.S * SumOver((0..(r.d - 1)) \X (0..(r.d - 1)), LAMBDA ij :
                                     E(r.A, ij[1], ij[2], b) * At(r.B, <<o[1], ij[1]>>, b) * At(r.B, <<o[2], ij[2]>>, b))
OutIdx(r) == Idx(r.od, r.on)
OutAt(r, o, b) == r.out[Lin(o, r.od, r.on) * r.nbo + b]
Definition(r) == \A b \in 1..r.nbo : \A o \in OutIdx(r) : OutAt(r, o, b) = Expected(r, o, b)

\* ---- laws that are not component formulas
\* batched linear solve: A x = b for every item (unimodular A: integer solution, logged at scale S)
SolveResidual(r) == \A b \in 1..r.nbo : \A i \in 0..(r.d - 1) :
                       SumOver(0..(r.d - 1), LAMBDA j : E(r.A, i, j, b) * r.out[j * r.nbo + b]) = r.S * At(r.B, <<i>>, b)
\* inverse: inv(A) * det(A) = adj(A) is covered by "adj"; inv itself: A inv(A) = 1 at scale S (unimodular A)
InverseIdentity(r) == \A b \in 1..r.nbo : \A ij \in Idx(r.d, 2) :
                         SumOver(0..(r.d - 1), LAMBDA k : E(r.A, ij[1], k, b) * OutAt(r, <<k, ij[2]>>, b)) = (IF ij[1] = ij[2] THEN r.S ELSE 0)
\* flag variants (sym shortcut, supplied determinant, output buffers, threaded evaluation) return the same values
SameAsPlain(r) == r.out = r.alt
\* inputs are left unchanged (bit patterns before / after as strings)
InputsUnchanged(r) == r.before = r.after
\* rotation matrices: orthogonal, determinant +1, the axis is fixed (2^20 fixed point)
L10 == 1024
M(a, b) == MulL(a, b, L10)
RotEl(r, i, j) == r.out[i * r.d + j + 1]
RotationOrthogonal(r) == \A ij \in Idx(r.d, 2) :
                           Abs(SumOver(0..(r.d - 1), LAMBDA k : M(RotEl(r, k, ij[1]), RotEl(r, k, ij[2]))) - (IF ij[1] = ij[2] THEN r.S ELSE 0)) <= 16
RotationAxisFixed(r) == r.d = 3 => \A i \in 0..2 : Abs(RotEl(r, i, r.axis) - (IF i = r.axis THEN r.S ELSE 0)) <= 2
\* counter-clockwise (right-handed) by the angle: cos on the diagonal, sin below / -sin above in the rotation plane
RotationAngle(r) == LET p == IF r.d = 2 THEN 0 ELSE (r.axis + 1) % 3  q == IF r.d = 2 THEN 1 ELSE (r.axis + 2) % 3 IN
                    /\ Abs(RotEl(r, p, p) - r.cos) <= 2 /\ Abs(RotEl(r, q, q) - r.cos) <= 2
                    /\ Abs(RotEl(r, q, p) - r.sin) <= 2 /\ Abs(RotEl(r, p, q) + r.sin) <= 2
\* eigen-decompositions: A v = lambda v and unit vectors, values in ascending order for the symmetric routines
EigenPairs(r) == \A b \in 0..(r.nbo - 1) : \A k \in 0..(r.d - 1) :
                   /\ \A i \in 0..(r.d - 1) :
                        Abs(SumOver(0..(r.d - 1), LAMBDA j : E(r.A, i, j, b + 1) * r.vec[(j * r.d + k) * r.nbo + b + 1])
                            - M(r.val[k * r.nbo + b + 1], r.vec[(i * r.d + k) * r.nbo + b + 1])) <= 64
                   /\ Abs(SumOver(0..(r.d - 1), LAMBDA i : M(r.vec[(i * r.d + k) * r.nbo + b + 1], r.vec[(i * r.d + k) * r.nbo + b + 1])) - r.S) <= 64
EigenAscending(r) == \A b \in 0..(r.nbo - 1) : \A k \in 0..(r.d - 2) : r.val[k * r.nbo + b + 1] <= r.val[(k + 1) * r.nbo + b + 1] + 2
\* Seth-Hill strains for integer stretches: k = 2: (l^2 - 1)/2 ; k = -2: (1 - l^-2)/2 ; k = 1: l - 1 ; k = -1: 1 - 1/l  (scale r.S)
SethHill(r) == \A n \in 1..Len(r.stretch) :
                 LET l == r.stretch[n] IN
                 r.out[n] = CASE r.k = 2 -> (r.S \div 2) * (l * l - 1) [] r.k = 1 -> r.S * (l - 1)
                              [] r.k = -1 -> r.S - r.S \div l [] r.k = -2 -> (r.S \div 2) - (r.S \div 2) \div (l * l)
\* linsteps: num equidistant steps between consecutive points (end point listed once); r.out at scale r.S
Linsteps(r) == /\ Len(r.out) = (Len(r.points) - 1) * r.num + 1
               /\ \A s \in 1..(Len(r.points) - 1) : \A n \in 0..r.num :
                     r.out[(s - 1) * r.num + n + 1] * r.num = r.S * (r.points[s] * (r.num - n) + r.points[s + 1] * n)
\* ... without the end point: num steps per segment; with axis / axes / values: a table whose column `axis` holds the sequence
\* and whose other columns hold the constant row `values`
LinstepsOpen(r) == /\ Len(r.out) = (Len(r.points) - 1) * r.num
                   /\ \A s \in 1..(Len(r.points) - 1) : \A n \in 0..(r.num - 1) :
                         r.out[(s - 1) * r.num + n + 1] * r.num = r.S * (r.points[s] * (r.num - n) + r.points[s + 1] * n)
LinstepsTable(r) == LET rows == Len(r.seq) IN
                    /\ Len(r.out) = rows * r.axes
                    /\ \A i \in 1..rows : \A c \in 1..r.axes :
                          r.out[(i - 1) * r.axes + c] = IF c = r.axis + 1 THEN r.seq[i] ELSE r.S * r.values[c]
\* eigenvalues with principal shear values: the d eigenvalues followed by their differences (1,0), (2,0), (2,1)
PrincipalShear(r) == LET ij == IF r.d = 3 THEN << <<1, 0>>, <<2, 0>>, <<2, 1>> >> ELSE << <<1, 0>> >>
                         V(k, b) == r.out[k * r.nbo + b + 1] IN
                     /\ Len(r.out) = (r.d + Len(ij)) * r.nbo
                     /\ \A b \in 0..(r.nbo - 1) :
                           /\ \A k \in 0..(r.d - 1) : V(k, b) = r.val[k * r.nbo + b + 1]
                           /\ \A n \in 1..Len(ij) : V(r.d + n - 1, b) = r.val[ij[n][1] * r.nbo + b + 1] - r.val[ij[n][2] * r.nbo + b + 1]

Clauses(r) == CASE r.kind = "def" -> {"Definition"} [] r.kind = "solve" -> {"SolveResidual"} [] r.kind = "inv" -> {"InverseIdentity"}
                [] r.kind = "same" -> {"SameAsPlain", "InputsUnchanged"}
                [] r.kind = "rotation" -> {"RotationOrthogonal", "RotationAxisFixed", "RotationAngle"}
                [] r.kind = "eig" -> IF r.symmetric THEN {"EigenPairs", "EigenAscending"} ELSE {"EigenPairs"}
                [] r.kind = "sethhill" -> {"SethHill"} [] r.kind = "linsteps" -> {"Linsteps"}
                [] r.kind = "linstepsopen" -> {"LinstepsOpen"} [] r.kind = "linstepstable" -> {"LinstepsTable"}
                [] r.kind = "eigshear" -> {"PrincipalShear"}
Holds(c, r) == CASE c = "Definition" -> Definition(r) [] c = "SolveResidual" -> SolveResidual(r) [] c = "InverseIdentity" -> InverseIdentity(r)
                 [] c = "SameAsPlain" -> SameAsPlain(r) [] c = "InputsUnchanged" -> InputsUnchanged(r)
                 [] c = "RotationOrthogonal" -> RotationOrthogonal(r) [] c = "RotationAxisFixed" -> RotationAxisFixed(r)
                 [] c = "RotationAngle" -> RotationAngle(r) [] c = "EigenPairs" -> EigenPairs(r) [] c = "EigenAscending" -> EigenAscending(r)
                 [] c = "SethHill" -> SethHill(r) [] c = "Linsteps" -> Linsteps(r)
                 [] c = "LinstepsOpen" -> LinstepsOpen(r) [] c = "LinstepsTable" -> LinstepsTable(r) [] c = "PrincipalShear" -> PrincipalShear(r)
Applicable(r) == Clauses(r)
Failing(r) == {c \in Clauses(r) : ~Holds(c, r)}

\* ---- algebraic consistency of the definitions themselves (checked by TLC at start-up on every 2 x 2 matrix over {-1,0,1,2}):
\* A adj(A) = det(A) 1
TwoByTwo == [v : [1..4 -> {-1, 0, 1, 2}], nb : {1}, d : {2}]
ASSUME \A A \in TwoByTwo : \A ij \in Idx(2, 2) :
         SumOver(0..1, LAMBDA k : E(A, ij[1], k, 1) * Cof(A, 2, ij[2], k, 1)) = (IF ij[1] = ij[2] THEN DetOf(A, 2, 1) ELSE 0)
ASSUME LET A == [v |-> <<2, 0, 1, 1, 3, -1, 0, 2, 4>>, nb |-> 1, d |-> 3] IN
         /\ DetOf(A, 3, 1) = 30
         /\ \A ij \in Idx(3, 2) : SumOver(0..2, LAMBDA k : E(A, ij[1], k, 1) * Cof(A, 3, ij[2], k, 1)) = (IF ij[1] = ij[2] THEN 30 ELSE 0)
=============================================================================
