SPECIFICATION Spec
CONSTANT MaxDepth = 2
INVARIANTS WF Dump
PROPERTIES InPlaceKeepsStructure Independence Visibility CopyIsFresh PlusIsPure LinkAliases JoinShares GlobalNumbering
CHECK_DEADLOCK FALSE
