SPECIFICATION Spec
CONSTANT MaxDepth = 3
INVARIANTS WF
PROPERTIES InPlaceKeepsStructure Independence Visibility CopyIsFresh PlusIsPure LinkAliases JoinShares GlobalNumbering
CHECK_DEADLOCK FALSE
