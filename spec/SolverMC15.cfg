SPECIFICATION MCSpec
CONSTANTS
  Items = {a, b}
  Stateful = {a}
  Ramped = {b}
  First = a
  NSteps = 2
  NSub = 3
  MaxIter = 2
  MaxRuns = 1
  Mut = "none"
  Unknown <- UnknownMC
INVARIANTS TypeOK CommittedIsReturned NoCommitOnFailure Dense IterationsBounded FramesFollowResults NothingAfterFailure RaiseOrReturn StartFromPrevious NoStuckState
PROPERTIES CommitOnlyInCheck Terminates
