SPECIFICATION MCSpec
CONSTANTS
  Items = {a, b}
  Stateful = {a}
  Ramped = {b}
  First = a
  NSteps = 2
  NSub = 2
  MaxIter = 2
  MaxRuns = 2
  Mut = "commit_on_fail"
  Unknown <- UnknownMC
INVARIANTS TypeOK CommittedIsReturned NoCommitOnFailure Dense IterationsBounded FramesFollowResults NothingAfterFailure RaiseOrReturn StartFromPrevious NoStuckState
PROPERTIES CommitOnlyInCheck Terminates
