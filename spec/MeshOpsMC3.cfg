SPECIFICATION Spec
CONSTANT MaxDepth = 3
INVARIANTS TypeDim OrderMatches Dump
CHECK_DEADLOCK FALSE
