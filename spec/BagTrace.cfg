SPECIFICATION Spec
POSTCONDITION Consumed
CHECK_DEADLOCK FALSE
