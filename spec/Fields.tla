------------------------------- MODULE Fields -------------------------------
(* C08 (field update part) -- the object / aliasing semantics of field        *)
(* containers: which value arrays a container update writes, and who else     *)
(* sees the write.  Three-level heap, as in the code:                         *)
(*                                                                            *)
(*   container name  ->  sequence of FIELD OBJECTS  (FieldContainer.fields)   *)
(*   field object    ->  VALUE ARRAY                (Field.values, rebindable)*)
(*   value array     ->  sequence of integers       (numpy buffer)            *)
(*                                                                            *)
(* One operator per public operation; each is a pure function on states so    *)
(* that the same definition drives the model checker (FieldsMC: every program *)
(* up to a depth, invariants) and the trace validation (FieldsTrace: for every*)
(* executed step, Apply(observed pre-state, op) must be isomorphic to the     *)
(* observed post-state).                                                      *)
(*                                                                            *)
(*   iop   c kind v      c += w / c -= w / c *= w   with a GLOBAL vector w    *)
(*                       (split at the field offsets, fields in order)        *)
(*   fiop  c k kind v    c[k] += w_k  (one field, array operand)              *)
(*   fill  c k v         c[k].fill(v)            (in place)                   *)
(*   link  a b           a.link(b)   field objects of a re-bound to b's arrays*)
(*   copy  a t           t = a.copy()            fresh objects and arrays     *)
(*   plus  a kind v t    t = a + w / a - w / a * w   (copy, then update)      *)
(*   join  a b t         t = a & b               SHARES the field objects     *)
EXTENDS Integers, Sequences, FiniteSets, FiniteSetsExt, SequencesExt, Functions, TLC

\* ---- states: s = [cont : name -> Seq(field object id), fobj : id -> array id, heap : array id -> Seq(Int)]
Defined(s, c) == c \in DOMAIN s.cont
Slots(s, c) == 1..Len(s.cont[c])
Arr(s, c, k) == s.fobj[s.cont[c][k]]
Size(s, c, k) == Len(s.heap[Arr(s, c, k)])
Sizes(s, c) == [k \in Slots(s, c) |-> Size(s, c, k)]
RECURSIVE SumTo(_, _)
SumTo(sz, k) == IF k = 0 THEN 0 ELSE sz[k] + SumTo(sz, k - 1)
Total(s, c) == SumTo(Sizes(s, c), Len(s.cont[c]))
Offset(s, c, k) == SumTo(Sizes(s, c), k - 1)           \* global index of the first unknown of field k, zero-based

\* the operand vectors are functions of the GLOBAL index g (1-based), so a wrong split or order is visible.
\* Contents are dyadic rationals logged at scale Unit; factors and divisors are 1 or 2 (exact within the explored depth).
Unit == 1024
W(kind, v, g) == IF kind \in {"mul", "div"} THEN 1 + ((g + v) % 2) ELSE Unit * v * g
Op2(kind, x, w) == CASE kind = "add" -> x + w [] kind = "sub" -> x - w [] kind = "mul" -> x * w [] kind = "div" -> x \div w

\* in-place update of ONE array with the operand entries for global indices off+1 .. off+n
UpdArr(h, a, kind, v, off) == [h EXCEPT ![a] = [i \in 1..Len(h[a]) |-> Op2(kind, h[a][i], W(kind, v, off + i))]]
\* fields are updated one after the other (a shared array receives every update that reaches it)
RECURSIVE IopFrom(_, _, _, _, _)
IopFrom(s, c, kind, v, k) ==
  IF k > Len(s.cont[c]) THEN s
  ELSE IopFrom([s EXCEPT !.heap = UpdArr(s.heap, Arr(s, c, k), kind, v, Offset(s, c, k))], c, kind, v, k + 1)
Iop(s, c, kind, v) == IopFrom(s, c, kind, v, 1)
\* field-level operand: local index
FIop(s, c, k, kind, v) == [s EXCEPT !.heap = UpdArr(s.heap, Arr(s, c, k), kind, v, 0)]
Fill(s, c, k, v) == [s EXCEPT !.heap[Arr(s, c, k)] = [i \in 1..Size(s, c, k) |-> Unit * v]]
\* field-level operand that is another FIELD:  c[k] op= d[j]   (entry-wise; the operand may be the updated array itself)
FFop(s, c, k, d, j, kind) ==
  LET a == Arr(s, c, k)  b == Arr(s, d, j) IN
  [s EXCEPT !.heap[a] = [i \in 1..Len(s.heap[a]) |-> IF kind = "add" THEN s.heap[a][i] + s.heap[b][i] ELSE s.heap[a][i] - s.heap[b][i]]]
\* zip(a.fields, b.fields): the field OBJECTS of a now reference b's arrays (everyone holding these objects sees it)
\* (pair by pair, in order: if a and b share field objects, a later pair reads what an earlier pair has re-bound)
RECURSIVE LinkFrom(_, _, _, _, _)
LinkFrom(s, a, b, k, n) ==
  IF k > n THEN s ELSE LinkFrom([s EXCEPT !.fobj[s.cont[a][k]] = s.fobj[s.cont[b][k]]], a, b, k + 1, n)
Link(s, a, b) == LinkFrom(s, a, b, 1, IF Len(s.cont[a]) < Len(s.cont[b]) THEN Len(s.cont[a]) ELSE Len(s.cont[b]))

\* fresh identifiers
MaxOr0(S) == IF S = {} THEN 0 ELSE Max(S)
\* deepcopy: fresh field objects and arrays, sharing structure INSIDE the copied container preserved
Copy(s, a, t) ==
  LET fos == {s.cont[a][k] : k \in Slots(s, a)}
      ars == {s.fobj[fo] : fo \in fos}
      fbase == MaxOr0(DOMAIN s.fobj)
      abase == MaxOr0(DOMAIN s.heap)
      nfo == [fo \in fos |-> fbase + Cardinality({x \in fos : x <= fo})]
      nar == [ar \in ars |-> abase + Cardinality({x \in ars : x <= ar})]
  IN [cont |-> [c \in DOMAIN s.cont \cup {t} |-> IF c = t THEN [k \in Slots(s, a) |-> nfo[s.cont[a][k]]] ELSE s.cont[c]],
      fobj |-> [fo \in DOMAIN s.fobj \cup {nfo[x] : x \in fos} |->
                  IF fo \in DOMAIN s.fobj THEN s.fobj[fo] ELSE nar[s.fobj[CHOOSE x \in fos : nfo[x] = fo]]],
      heap |-> [ar \in DOMAIN s.heap \cup {nar[x] : x \in ars} |->
                  IF ar \in DOMAIN s.heap THEN s.heap[ar] ELSE s.heap[CHOOSE x \in ars : nar[x] = ar]]]
Plus(s, a, kind, v, t) == Iop(Copy(s, a, t), t, kind, v)
\* a & b : a new container that holds the SAME field objects
Join(s, a, b, t) == [s EXCEPT !.cont = [c \in DOMAIN s.cont \cup {t} |-> IF c = t THEN s.cont[a] \o s.cont[b] ELSE s.cont[c]]]

\* ---- one operation as a record (the format of exported programs and of trace events)
Apply(s, op) ==
  CASE op.op = "iop" -> Iop(s, op.c, op.kind, op.v)
    [] op.op = "fiop" -> FIop(s, op.c, op.k, op.kind, op.v)
    [] op.op = "fill" -> Fill(s, op.c, op.k, op.v)
    [] op.op = "ffop" -> FFop(s, op.c, op.k, op.d, op.j, op.kind)
    [] op.op = "link" -> Link(s, op.a, op.b)
    [] op.op = "copy" -> Copy(s, op.a, op.t)
    [] op.op = "plus" -> Plus(s, op.a, op.kind, op.v, op.t)
    [] op.op = "join" -> Join(s, op.a, op.b, op.t)
\* exact division: every entry of every field of c is divisible by its divisor (checked on the sequentially updated state)
DivExact(s, c, v) == \A k \in Slots(s, c) : \A i \in 1..Size(s, c, k) : s.heap[Arr(s, c, k)][i] % 4 = 0
\* preconditions under which the operation is a documented, meaningful call
SameShape(s, a, b) == Len(s.cont[a]) = Len(s.cont[b]) /\ \A k \in Slots(s, a) : Size(s, a, k) = Size(s, b, k)
Enabled(s, op) ==
  CASE op.op \in {"iop"} -> Defined(s, op.c) /\ (op.kind = "div" => DivExact(s, op.c, op.v))
    [] op.op \in {"fiop", "fill"} -> Defined(s, op.c) /\ op.k \in Slots(s, op.c)
    [] op.op = "ffop" -> Defined(s, op.c) /\ Defined(s, op.d) /\ op.k \in Slots(s, op.c) /\ op.j \in Slots(s, op.d)
                         /\ Size(s, op.c, op.k) = Size(s, op.d, op.j)
    \* exact division only (all entries divisible by their divisor)

    [] op.op = "link" -> Defined(s, op.a) /\ Defined(s, op.b) /\ op.a # op.b /\ SameShape(s, op.a, op.b)
    [] op.op = "copy" -> Defined(s, op.a)
    [] op.op = "plus" -> Defined(s, op.a) /\ (op.kind = "div" => DivExact(s, op.a, op.v))
    [] op.op = "join" -> Defined(s, op.a) /\ Defined(s, op.b) /\ Len(s.cont[op.a]) + Len(s.cont[op.b]) <= 4

\* ---- structural facts (invariants of every reachable state, checked by FieldsMC)
WellFormed(s) == /\ \A c \in DOMAIN s.cont : \A k \in Slots(s, c) : s.cont[c][k] \in DOMAIN s.fobj
                 /\ \A fo \in DOMAIN s.fobj : s.fobj[fo] \in DOMAIN s.heap
\* containers that share no field object and no array are independent: an update of one leaves the other unchanged
Reach(s, c) == {Arr(s, c, k) : k \in Slots(s, c)}
Content(s, c) == [k \in Slots(s, c) |-> s.heap[Arr(s, c, k)]]

\* ---- isomorphism of two states up to the choice of identifiers (slot-pair relations), clause by clause
SlotSet(s) == {<<c, k>> : c \in DOMAIN s.cont, k \in 1..4} \cap {ck \in (DOMAIN s.cont) \X (1..4) : ck[2] <= Len(s.cont[ck[1]])}
ContainersConform(m, o) == DOMAIN m.cont = DOMAIN o.cont /\ \A c \in DOMAIN m.cont : Len(m.cont[c]) = Len(o.cont[c])
FieldSharingConforms(m, o) ==
  ContainersConform(m, o) =>
    \A p, q \in SlotSet(m) : (m.cont[p[1]][p[2]] = m.cont[q[1]][q[2]]) <=> (o.cont[p[1]][p[2]] = o.cont[q[1]][q[2]])
ArraySharingConforms(m, o) ==
  ContainersConform(m, o) =>
    \A p, q \in SlotSet(m) : (Arr(m, p[1], p[2]) = Arr(m, q[1], q[2])) <=> (Arr(o, p[1], p[2]) = Arr(o, q[1], q[2]))
ContentConforms(m, o) ==
  ContainersConform(m, o) => \A p \in SlotSet(m) : m.heap[Arr(m, p[1], p[2])] = o.heap[Arr(o, p[1], p[2])]
=============================================================================
