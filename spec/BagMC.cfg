SPECIFICATION Spec
CONSTANT MaxDepth = 2
INVARIANTS Bounded Dump
CHECK_DEADLOCK FALSE
