------------------------------ MODULE Element ------------------------------
(* C04 -- laws of finite-element shape functions, stated on lattice samples.  *)
(*                                                                            *)
(* An element record e carries the values of function / gradient / hessian    *)
(* on the uniform lattice {-ext .. m+ext}^dim (itertools.product order), at   *)
(* fixed-point scale e.S.  Lattice index I corresponds to the reference       *)
(* coordinate lo + I*step with step = stepnum/stepden (cube: lo=-1, simplex:  *)
(* lo=0).  All shape functions are polynomials on R^dim of degree <= 6 per    *)
(* variable, so                                                               *)
(*   - the 7-point central stencil  sum_s c_s f(x+s*step) = 60*step*f'(x)     *)
(*     with c = (-1,9,-45,0,45,-9,1) is an IDENTITY (no truncation error),    *)
(*   - agreement on a tensor lattice with more nodes per variable than the    *)
(*     degree is a polynomial identity: the laws hold at every point of the   *)
(*     reference cell iff they hold on the lattice.                           *)
(* Completeness is stated in the Newton (binomial) basis                      *)
(*     B_e(I) = prod_k C(I_k, e_k),  |e| <= p,                                *)
(* which spans the polynomials of total degree <= p and is integer valued and *)
(* small on the lattice (no overflow, exact coefficients).                    *)
EXTENDS FixedPoint, TLC

C7 == <<-1, 9, -45, 0, 45, -9, 1>>          \* 60 * central weights

\* ------------------------------------------------------------------ access
Side(e) == e.m + 2 * e.ext + 1
Pos(e, I) == 1 + SumOver(1..e.dim, LAMBDA k : (I[k] + e.ext) * IPow(Side(e), e.dim - k))
Shift(I, j, s) == [I EXCEPT ![j] = @ + s]
Inner(e) == [1..e.dim -> 0..e.m]

Hval(e, I, a) == e.pts[Pos(e, I)].h[a]
Gval(e, I, a, j) == e.pts[Pos(e, I)].g[(a - 1) * e.dim + j]
HHval(e, I, a, j, k) == e.pts[Pos(e, I)].H[((a - 1) * e.dim + j - 1) * e.dim + k]

Stencil(f) == SumOver(1..7, LAMBDA s : C7[s] * f[s])

RECURSIVE Binom(_, _)
Binom(n, k) == IF k = 0 THEN 1 ELSE IF n < k THEN 0 ELSE (Binom(n - 1, k - 1) * n) \div k
Newton(I, ex) == FoldSet(LAMBDA k, acc : Binom(I[k], ex[k]) * acc, 1, DOMAIN ex)
\* exponent tuples of total degree <= p; e.cmax (issued with the case) drops those whose Newton
\* polynomial is too large for 32-bit sums on the finer high-order lattices (see InTensorSpace)
Exps(e) == { ex \in [1..e.dim -> 0..e.p] : /\ SumOver(1..e.dim, LAMBDA k : ex[k]) <= e.p
                                          /\ Newton([k \in 1..e.dim |-> e.m], ex) <= e.cmax }

\* ------------------------------------------------------------------- laws
\* guard: every logged number is small enough for the integer laws below not to overflow
\* (only lattice points that a law reads: at most one coordinate outside the cell)
IdxOf(e, n) == [k \in 1..e.dim |-> (((n - 1) \div IPow(Side(e), e.dim - k)) % Side(e)) - e.ext]
Used(e, n) == Cardinality({k \in 1..e.dim : IdxOf(e, n)[k] < 0 \/ IdxOf(e, n)[k] > e.m}) <= 1
Bounded(e) == \A n \in 1..Len(e.pts) : Used(e, n) =>
                 /\ MaxAbsSeq(e.pts[n].h) <= e.hmax
                 /\ MaxAbsSeq(e.pts[n].g) <= e.hmax
                 /\ (e.hasH => MaxAbsSeq(e.pts[n].H) <= 2147483647 \div (64 * e.stepnum))

PartitionOfUnity(e) ==
  \A I \in Inner(e) : Abs(SumOver(1..e.nnodal, LAMBDA a : Hval(e, I, a)) - e.S) <= e.nnodal + 4

NodeOnLattice(e, b) == \A k \in 1..e.dim : e.nodes[b][k] >= -e.ext /\ e.nodes[b][k] <= e.m + e.ext
Kronecker(e) ==
  \A b \in 1..e.nnodal : NodeOnLattice(e, b) =>
     \A a \in 1..e.nnodal : Abs(Hval(e, e.nodes[b], a) - (IF a = b THEN e.S ELSE 0)) <= 4

AllNodesInner(e) == \A b \in 1..e.nnodal : \A k \in 1..e.dim : e.nodes[b][k] >= 0 /\ e.nodes[b][k] <= e.m
Completeness(e) ==
  \A ex \in Exps(e) : \A I \in Inner(e) :
     Abs(SumOver(1..e.nnodal, LAMBDA a : Newton(e.nodes[a], ex) * Hval(e, I, a)) - Newton(I, ex) * e.S)
        <= 8 + e.nnodal * Newton([k \in 1..e.dim |-> e.m], ex)

\* Tensor-product Lagrange elements (documented as dyadic products of 1-d Lagrange polynomials of
\* order p): every function has degree <= p in each variable, i.e. its (p+1)-th finite difference
\* along each axis vanishes.  Together with Kronecker on the (p+1)^dim nodes this makes the functions
\* THE nodal basis of Q_p, hence complete for every polynomial of degree <= p per variable.
InTensorSpace(e) ==
  \A a \in 1..e.nn : \A j \in 1..e.dim : \A I \in Inner(e) : \A o \in {-e.ext, 0, e.m + e.ext - e.p - 1} :
     LET J == [I EXCEPT ![j] = o] IN
     Abs(SumOver(0..(e.p + 1), LAMBDA t : (IF t % 2 = 0 THEN 1 ELSE -1) * Binom(e.p + 1, t) * Hval(e, Shift(J, j, t), a)))
        <= IPow(2, e.p + 1) + 8

GradTol(e) == 64 * e.stepden + 32 * e.stepnum
GradIsDerivative(e) ==
  \A I \in Inner(e) : \A a \in 1..e.nn : \A j \in 1..e.dim :
     Abs(e.stepden * Stencil([s \in 1..7 |-> Hval(e, Shift(I, j, s - 4), a)])
         - 60 * e.stepnum * Gval(e, I, a, j)) <= GradTol(e)

HessIsDerivative(e) ==
  \A I \in Inner(e) : \A a \in 1..e.nn : \A j \in 1..e.dim : \A k \in 1..e.dim :
     Abs(e.stepden * Stencil([s \in 1..7 |-> Gval(e, Shift(I, k, s - 4), a, j)])
         - 60 * e.stepnum * HHval(e, I, a, j, k)) <= GradTol(e)

HessSymmetric(e) ==
  \A I \in Inner(e) : \A a \in 1..e.nn : \A j \in 1..e.dim : \A k \in 1..e.dim :
     Abs(HHval(e, I, a, j, k) - HHval(e, I, a, k, j)) <= 2

OnCellBoundary(e, I) ==
  IF e.family = "cube" THEN \E k \in 1..e.dim : I[k] \in {0, e.m}
  ELSE /\ SumOver(1..e.dim, LAMBDA k : I[k]) <= e.m
       /\ ((\E k \in 1..e.dim : I[k] = 0) \/ SumOver(1..e.dim, LAMBDA k : I[k]) = e.m)
BubbleVanishesOnBoundary(e) ==
  \A b \in 1..Len(e.bubbles) : \A I \in Inner(e) :
     OnCellBoundary(e, I) => Abs(Hval(e, I, e.bubbles[b])) <= 2

LatticeClauses(e) ==
  {"Bounded", "PartitionOfUnity", "Kronecker", "GradIsDerivative"}
    \cup (IF AllNodesInner(e) THEN {"Completeness"} ELSE {})
    \cup (IF e.space = "Q" THEN {"InTensorSpace"} ELSE {})
    \cup (IF e.hasH THEN {"HessIsDerivative", "HessSymmetric"} ELSE {})
    \cup (IF Len(e.bubbles) > 0 THEN {"BubbleVanishesOnBoundary"} ELSE {})

LatticeHolds(c, e) ==
  CASE c = "Bounded" -> Bounded(e)
    [] c = "PartitionOfUnity" -> PartitionOfUnity(e)
    [] c = "Kronecker" -> Kronecker(e)
    [] c = "Completeness" -> Completeness(e)
    [] c = "InTensorSpace" -> InTensorSpace(e)
    [] c = "GradIsDerivative" -> GradIsDerivative(e)
    [] c = "HessIsDerivative" -> HessIsDerivative(e)
    [] c = "HessSymmetric" -> HessSymmetric(e)
    [] c = "BubbleVanishesOnBoundary" -> BubbleVanishesOnBoundary(e)

LatticeFailing(e) == IF ~Bounded(e) THEN {"Bounded"}
                     ELSE { c \in LatticeClauses(e) : ~LatticeHolds(c, e) }

\* -------------------------------------------------- permutation records
(* r.nodesP / r.nodesU : node coordinates (lattice index 0..p per axis) of the   *)
(* permuted / unpermuted Lagrange element; r.hP / r.hU : function values at the  *)
(* same probe points; r.gP / r.gU gradients.  "Permutation only reorders": there *)
(* is a bijection pi with nodesP[a] = nodesU[pi[a]] and hP[.][a] = hU[.][pi[a]]. *)
PiOf(r) == [a \in 1..r.nn |-> CHOOSE b \in 1..r.nn : r.nodesU[b] = r.nodesP[a]]
PermNodesBijective(r) ==
  /\ \A a \in 1..r.nn : \E b \in 1..r.nn : r.nodesU[b] = r.nodesP[a]
  /\ \A a, b \in 1..r.nn : a # b => r.nodesP[a] # r.nodesP[b]
PermSameFunctions(r) ==
  PermNodesBijective(r) =>
    LET pi == PiOf(r) IN
      /\ \A n \in 1..Len(r.hP) : \A a \in 1..r.nn : Abs(r.hP[n][a] - r.hU[n][pi[a]]) <= 2
      /\ \A n \in 1..Len(r.gP) : \A a \in 1..r.nn : \A j \in 1..r.dim :
            Abs(r.gP[n][(a - 1) * r.dim + j] - r.gU[n][(pi[a] - 1) * r.dim + j]) <= 2
\* VTK Lagrange ordering: vertices, then edge nodes, then face nodes, then volume nodes
InteriorDim(r, a) == Cardinality({k \in 1..r.dim : r.nodesP[a][k] \notin {0, r.p}})
VtkOrder(r) == \A a \in 1..(r.nn - 1) : InteriorDim(r, a) <= InteriorDim(r, a + 1)
\* values at the element's own nodes
KroneckerAtNodes(r) == \A b \in 1..r.nn : \A a \in 1..r.nn :
                         Abs(r.hn[b][a] - (IF a = b THEN r.S ELSE 0)) <= 4

PermClauses == {"PermNodesBijective", "PermSameFunctions", "VtkOrder", "KroneckerAtNodes"}
PermFailing(r) == (IF PermNodesBijective(r) THEN {} ELSE {"PermNodesBijective"})
                  \cup (IF PermSameFunctions(r) THEN {} ELSE {"PermSameFunctions"})
                  \cup (IF VtkOrder(r) THEN {} ELSE {"VtkOrder"})
                  \cup (IF KroneckerAtNodes(r) THEN {} ELSE {"KroneckerAtNodes"})

Applicable(r) == IF r.kind = "lattice" THEN LatticeClauses(r) ELSE PermClauses
Failing(r) == IF r.kind = "lattice" THEN LatticeFailing(r) ELSE PermFailing(r)
=============================================================================
