------------------------------- MODULE Solver -------------------------------
(* The felupe solver stack as a state machine.                               *)
(*                                                                            *)
(*   Job.evaluate -> Step.generate -> newtonrhapson ->                        *)
(*       fun_items / jac_items / solve / update / check -> Results.update_statevars *)
(*                                                                            *)
(* One action per block of code between two observable points (the run-time   *)
(* tracer harness/vh/tracer.py emits one event per action, after the state    *)
(* change).  Actions are parameterised by the data an event carries; the      *)
(* model-checking wrapper SolverMC closes the parameters nondeterministically *)
(* (fresh iterate versions, outcome oracle), the trace wrapper SolverTrace    *)
(* binds them to the logged fields.                                           *)
(*                                                                            *)
(* Abstract state                                                             *)
(*   pc        control location                                               *)
(*   mode      "none" | "job" | "step" | "newton": what is being evaluated    *)
(*   job       [nsteps, usex0, file] of the running Job                       *)
(*   scfg      configuration of the running Step:                             *)
(*             [items (set), first (items[0]), stateful (set), ramp (item ->  *)
(*              sequence of values), nsub]                                    *)
(*   j, i, k   step number, substep number (1-based), Newton iteration        *)
(*   x         identity of the current iterate (version / content digest)     *)
(*   fieldver  item -> identity of the iterate the item's field is linked to  *)
(*   x0ver     identity of the values of the x0 container (usex0 variant)     *)
(*   kin       item -> iterate at which the item last extracted kinematics    *)
(*   trial, committed   item -> identity of trial / committed state variables *)
(*   committed0          committed at Newton entry (for NoCommitOnFailure)    *)
(*   pending   items committed inside the running check                       *)
(*   ramped    ramped items already updated in this substep                   *)
(*   results, cbs, frames, time   logs of the running job (history variables) *)
(*   returned  set of trial identities of all returned (converged) iterates   *)
(*   raised    "none" | "nan" | "maxiter" : how the last Newton run ended     *)
(*   lastcheck outcome of the last check(): "none" | "conv" | "cont" | "nan"      *)
EXTENDS Integers, Sequences, FiniteSets, TLC

CONSTANT Unknown                 \* wildcard identity (a fresh process knows nothing about old state)

VARIABLES pc, mode, job, scfg, j, i, k, maxiter, x, fieldver, x0ver, kin, trial, committed,
          committed0, pending, ramped, results, cbs, frames, time, returned, raised, lastcheck

vars == <<pc, mode, job, scfg, j, i, k, maxiter, x, fieldver, x0ver, kin, trial, committed,
          committed0, pending, ramped, results, cbs, frames, time, returned, raised, lastcheck>>

Match(a, b) == a = Unknown \/ b = Unknown \/ a = b
Get(f, it) == IF it \in DOMAIN f THEN f[it] ELSE Unknown
Upd(f, S, v) == [it \in DOMAIN f \cup S |-> IF it \in S THEN v ELSE f[it]]
UpdF(f, g) == [it \in DOMAIN f \cup DOMAIN g |-> IF it \in DOMAIN g THEN g[it] ELSE f[it]]
Last(s) == s[Len(s)]

NoJob == [kind |-> "none", nsteps |-> 0, usex0 |-> FALSE, file |-> FALSE]
NoStep == [items |-> {}, first |-> Unknown, stateful |-> {}, ramp |-> <<>>, nsub |-> 0]

Init ==
  /\ pc = "Idle" /\ mode = "none" /\ job = NoJob /\ scfg = NoStep
  /\ j = 0 /\ i = 0 /\ k = 0 /\ maxiter = 0
  /\ x = Unknown /\ fieldver = <<>> /\ x0ver = Unknown
  /\ kin = <<>> /\ trial = <<>> /\ committed = <<>> /\ committed0 = <<>>
  /\ pending = {} /\ ramped = {}
  /\ results = <<>> /\ cbs = <<>> /\ frames = <<>> /\ time = 0
  /\ returned = {} /\ raised = "none" /\ lastcheck = "none"

-----------------------------------------------------------------------------
(* Job.evaluate(filename?, x0?) entered *)
JobBegin(cfg, x0id) ==
  /\ pc = "Idle" /\ mode = "none" /\ cfg.kind = "job"
  /\ mode' = "job" /\ job' = cfg /\ x0ver' = x0id
  /\ j' = 0 /\ i' = 0 /\ time' = 0 /\ results' = <<>> /\ cbs' = <<>> /\ frames' = <<>>
  /\ raised' = "none"
  /\ pc' = IF cfg.nsteps = 0 THEN "JobEnd" ELSE "StepBegin"
  /\ UNCHANGED <<scfg, k, maxiter, x, fieldver, kin, trial, committed, committed0, pending, ramped, returned, lastcheck>>

(* Step.generate starts executing (first next() on the generator) *)
StepBegin(cfg) ==
  /\ \/ pc = "StepBegin" /\ mode = "job" /\ UNCHANGED <<mode, job, results, cbs, frames, time, raised, x0ver>>
     \/ /\ pc = "Idle" /\ mode = "none"                    \* a Step used without a Job
        /\ mode' = "step" /\ job' = [kind |-> "step", nsteps |-> 1, usex0 |-> cfg.usex0, file |-> FALSE]
        /\ results' = <<>> /\ cbs' = <<>> /\ frames' = <<>> /\ time' = 0 /\ raised' = "none"
        /\ x0ver' = cfg.x0id
  /\ cfg.first \in cfg.items /\ cfg.stateful \subseteq cfg.items /\ DOMAIN cfg.ramp \subseteq cfg.items \cup cfg.extra
  /\ scfg' = cfg
  /\ j' = (IF mode = "job" THEN j + 1 ELSE 1) /\ i' = 1 /\ ramped' = {}
  /\ pc' = IF cfg.nsub = 0 THEN "StepEnd" ELSE "Ramp"
  /\ UNCHANGED <<k, maxiter, x, fieldver, kin, trial, committed, committed0, pending, returned, lastcheck>>

(* item.update(value[substep]) for one ramped item or boundary: the i-th ramp value in the i-th substep *)
RampUpdate(it, value) ==
  /\ pc = "Ramp"
  /\ it \in DOMAIN scfg.ramp /\ it \notin ramped
  /\ i \in 1..Len(scfg.ramp[it])            \* (total also on re-synchronised trace states)
  /\ value = scfg.ramp[it][i]
  /\ ramped' = ramped \cup {it}
  /\ UNCHANGED <<pc, mode, job, scfg, j, i, k, maxiter, x, fieldver, x0ver, kin, trial, committed,
                 committed0, pending, results, cbs, frames, time, returned, raised, lastcheck>>

(* newtonrhapson entered from Step.generate: every ramped item has been updated *)
NewtonEnter(mi) ==
  /\ pc = "Ramp" /\ ramped = DOMAIN scfg.ramp
  /\ maxiter' = mi /\ k' = 0 /\ committed0' = committed /\ pending' = {} /\ raised' = "none"
  /\ pc' = "Resid0"
  /\ UNCHANGED <<mode, job, scfg, j, i, x, fieldver, x0ver, kin, trial, committed, ramped,
                 results, cbs, frames, time, returned, lastcheck>>

(* newtonrhapson called directly by the user (no Step): cfg describes items / x0 *)
NewtonStandalone(cfg, mi) ==
  /\ pc = "Idle" /\ mode = "none"
  /\ mode' = "newton" /\ scfg' = cfg /\ job' = [kind |-> "newton", nsteps |-> 0, usex0 |-> cfg.usex0, file |-> FALSE]
  /\ x0ver' = cfg.x0id
  /\ maxiter' = mi /\ k' = 0 /\ committed0' = committed /\ pending' = {} /\ raised' = "none"
  /\ j' = 0 /\ i' = 0 /\ results' = <<>> /\ cbs' = <<>> /\ frames' = <<>> /\ time' = 0
  /\ pc' = "Resid0"
  /\ UNCHANGED <<x, fieldver, kin, trial, committed, ramped, returned, lastcheck>>

(* the iterate Newton starts from: x0 if given, else the field of the first item, i.e. the   *)
(* iterate linked by the previous fun_items call -- the previous converged substep           *)
StartIterate == IF job.usex0 THEN x0ver ELSE Get(fieldver, scfg.first)

(* f = fun_items(items, x): links every item's field to x, extracts kinematics, computes     *)
(* TRIAL state variables; committed state variables are only read                            *)
Resid0(xv, tr) ==
  /\ pc = "Resid0"
  /\ Match(StartIterate, xv)
  /\ x' = xv
  /\ fieldver' = Upd(fieldver, scfg.items, xv)
  /\ kin' = Upd(kin, scfg.items, xv)
  /\ trial' = UpdF(trial, tr)
  /\ pc' = "Jac"
  /\ UNCHANGED <<mode, job, scfg, j, i, k, maxiter, x0ver, committed, committed0, pending, ramped,
                 results, cbs, frames, time, returned, raised, lastcheck>>

(* K = jac_items(items, x): the tangent is taken at the iterate the vector was taken at *)
Jac ==
  /\ pc = "Jac" /\ k < maxiter
  /\ \A it \in scfg.items : Get(kin, it) = x
  /\ pc' = "Solve"
  /\ UNCHANGED <<mode, job, scfg, j, i, k, maxiter, x, fieldver, x0ver, kin, trial, committed,
                 committed0, pending, ramped, results, cbs, frames, time, returned, raised, lastcheck>>

Solve ==
  /\ pc = "Solve" /\ pc' = "Update"
  /\ UNCHANGED <<mode, job, scfg, j, i, k, maxiter, x, fieldver, x0ver, kin, trial, committed,
                 committed0, pending, ramped, results, cbs, frames, time, returned, raised, lastcheck>>

(* x = update(x, dx): a new container; item fields still linked to the old one *)
Update(xv) ==
  /\ pc = "Update"
  /\ x' = xv /\ k' = k + 1 /\ pc' = "Resid"
  /\ UNCHANGED <<mode, job, scfg, j, i, maxiter, fieldver, x0ver, kin, trial, committed,
                 committed0, pending, ramped, results, cbs, frames, time, returned, raised, lastcheck>>

Resid(tr) ==
  /\ pc = "Resid"
  /\ fieldver' = Upd(fieldver, scfg.items, x)
  /\ kin' = Upd(kin, scfg.items, x)
  /\ trial' = UpdF(trial, tr)
  /\ pending' = {}
  /\ pc' = "Check"
  /\ UNCHANGED <<mode, job, scfg, j, i, k, maxiter, x, x0ver, committed, committed0, ramped,
                 results, cbs, frames, time, returned, raised, lastcheck>>

(* Results.update_statevars() of one item: only inside a successful check; idempotent        *)
(* (the code calls it len(items) times per item).  Items without trial state keep theirs.    *)
Commit(it, had) ==
  /\ pc = "Check"
  /\ it \in scfg.items
  /\ committed' = IF had THEN Upd(committed, {it}, Get(trial, it)) ELSE committed
  /\ pending' = pending \cup {it}
  /\ UNCHANGED <<pc, mode, job, scfg, j, i, k, maxiter, x, fieldver, x0ver, kin, trial, committed0,
                 ramped, results, cbs, frames, time, returned, raised, lastcheck>>

(* outcome of check(): "conv" (success), "cont" (not yet), "nan" *)
Check(o) ==
  /\ pc = "Check" /\ lastcheck' = o
  /\ CASE o = "conv" -> /\ pending = scfg.items              \* every item committed ...
                        /\ pc' = "Return" /\ UNCHANGED raised
       [] o = "nan"  -> /\ pending = {}                       \* ... and nothing otherwise
                        /\ pc' = "Raise" /\ raised' = "nan"
       [] o = "cont" -> /\ pending = {}
                        /\ IF k = maxiter THEN pc' = "Raise" /\ raised' = "maxiter"
                                          ELSE pc' = "Jac" /\ UNCHANGED raised
  /\ UNCHANGED <<mode, job, scfg, j, i, k, maxiter, x, fieldver, x0ver, kin, trial, committed,
                 committed0, pending, ramped, results, cbs, frames, time, returned>>

(* advance to the next substep / end of step (used by the actions that close a substep) *)
Advance == IF i < scfg.nsub THEN i' = i + 1 /\ ramped' = {} /\ pc' = "Ramp"
                            ELSE UNCHANGED <<i, ramped>> /\ pc' = "StepEnd"

(* NewtonResult returned (success = TRUE, iterations = k, x) *)
Return ==
  /\ pc = "Return"
  /\ results' = Append(results, [step |-> j, sub |-> i, nsub |-> scfg.nsub, x |-> x, iters |-> k])
  /\ returned' = returned \cup {Get(trial, it) : it \in scfg.stateful}
  /\ CASE mode = "job" -> pc' = "Callback" /\ UNCHANGED <<mode, i, ramped>>
       [] mode = "step" -> Advance /\ UNCHANGED mode
       [] mode = "newton" -> pc' = "Idle" /\ mode' = "none" /\ UNCHANGED <<i, ramped>>
  /\ UNCHANGED <<job, scfg, j, k, maxiter, x, fieldver, x0ver, kin, trial, committed, committed0,
                 pending, cbs, frames, time, raised, lastcheck>>

(* ValueError raised: the exception leaves Step.generate and Job.evaluate *)
Raise ==
  /\ pc = "Raise"
  /\ CASE mode = "job" -> pc' = "JobRaise" /\ UNCHANGED mode
       [] OTHER -> pc' = "Idle" /\ mode' = "none"
  /\ UNCHANGED <<job, scfg, j, i, k, maxiter, x, fieldver, x0ver, kin, trial, committed, committed0,
                 pending, ramped, results, cbs, frames, time, returned, raised, lastcheck>>

(* Job: callback(j, i, substep); x0.link(substep.x); timetrack.append(time) *)
Callback ==
  /\ pc = "Callback"
  /\ cbs' = Append(cbs, [step |-> j, sub |-> i, x |-> x])
  /\ x0ver' = IF job.usex0 THEN x ELSE x0ver
  /\ IF job.file THEN pc' = "Frame" /\ UNCHANGED <<i, ramped, time>>
                 ELSE time' = time + 1 /\ Advance
  /\ UNCHANGED <<mode, job, scfg, j, k, maxiter, x, fieldver, kin, trial, committed, committed0,
                 pending, results, frames, returned, raised, lastcheck>>

(* writer.write_data(time, ...); time += 1 *)
Frame ==
  /\ pc = "Frame"
  /\ frames' = Append(frames, [time |-> time, x |-> x])
  /\ time' = time + 1
  /\ Advance
  /\ UNCHANGED <<mode, job, scfg, j, k, maxiter, x, fieldver, x0ver, kin, trial, committed, committed0,
                 pending, results, cbs, returned, raised, lastcheck>>

StepEnd ==
  /\ pc = "StepEnd"
  /\ CASE mode = "job" -> pc' = (IF j < job.nsteps THEN "StepBegin" ELSE "JobEnd") /\ UNCHANGED mode
       [] OTHER -> pc' = "Idle" /\ mode' = "none"
  /\ UNCHANGED <<job, scfg, j, i, k, maxiter, x, fieldver, x0ver, kin, trial, committed, committed0,
                 pending, ramped, results, cbs, frames, time, returned, raised, lastcheck>>

JobEnd ==
  /\ pc = "JobEnd" /\ pc' = "Idle" /\ mode' = "none"
  /\ UNCHANGED <<job, scfg, j, i, k, maxiter, x, fieldver, x0ver, kin, trial, committed, committed0,
                 pending, ramped, results, cbs, frames, time, returned, raised, lastcheck>>

JobRaise ==
  /\ pc = "JobRaise" /\ pc' = "Idle" /\ mode' = "none"
  /\ UNCHANGED <<job, scfg, j, i, k, maxiter, x, fieldver, x0ver, kin, trial, committed, committed0,
                 pending, ramped, results, cbs, frames, time, returned, raised, lastcheck>>

-----------------------------------------------------------------------------
(* Properties (C07, C15, C20).  They are stated over the abstract state and the logs, so the *)
(* same formulas are checked by TLC on the model and evaluated on validated traces.          *)

\* C07/C15: committed state variables are the trial state of a returned (converged) iterate,
\* or what they were before anything was solved
CommittedIsReturned ==
  \A it \in DOMAIN committed :
     \/ committed[it] = Get(committed0, it)
     \/ committed[it] \in returned
     \/ (pc \in {"Check", "Return"} /\ it \in pending /\ committed[it] = Get(trial, it))

\* C07/C15: a Newton run that raises leaves the state variables as they were on entry
NoCommitOnFailure == pc \in {"Raise", "JobRaise"} => committed = committed0

\* C15: one result per converged substep, consecutively numbered, none missing
Dense ==
  \A n \in 1..Len(results) :
     /\ n > 1 => \/ (results[n].step = results[n - 1].step /\ results[n].sub = results[n - 1].sub + 1)
                 \/ (results[n].step > results[n - 1].step /\ results[n].sub = 1
                       /\ results[n - 1].sub = results[n - 1].nsub)
     /\ n = 1 => (results[1].sub = 1 \/ results[1].step = 0)

\* C15/C07: iterations are within 1..maxiter
IterationsBounded == \A n \in 1..Len(results) : results[n].iters >= 1

\* C20: one callback per result, one frame per result (when a file is written), in order,
\* with times 0, 1, 2, ... and the iterate of the corresponding substep
FramesFollowResults ==
  /\ job.kind = "job" =>
       /\ Len(cbs) \in {Len(results), Len(results) - 1}
       /\ \A n \in 1..Len(cbs) : cbs[n].x = results[n].x /\ cbs[n].step = results[n].step /\ cbs[n].sub = results[n].sub
  /\ (job.kind = "job" /\ job.file) =>
       /\ Len(frames) \in {Len(cbs), Len(cbs) - 1}
       /\ \A n \in 1..Len(frames) : frames[n].time = n - 1 /\ frames[n].x = results[n].x
  /\ ~(job.kind = "job" /\ job.file) => frames = <<>>
  /\ job.kind # "job" => cbs = <<>>

\* C15: nothing is yielded, called back or written after a failure
NothingAfterFailure == raised # "none" => pc \in {"Raise", "JobRaise", "Idle"}

\* C07: a run ends by Return (success) xor Raise
RaiseOrReturn == /\ pc = "Raise" => raised \in {"nan", "maxiter"} /\ lastcheck \in {"nan", "cont"}
                 /\ pc = "Return" => raised = "none" /\ lastcheck = "conv"

\* C15: within a job every substep starts from the previously returned iterate
StartFromPrevious == (pc = "Jac" /\ k = 0 /\ results # <<>>) => x = Last(results).x

\* action property: committed changes only by a Commit inside check
CommitOnlyInCheck == [][committed' # committed => pc = "Check" /\ pc' = "Check"]_vars
=============================================================================
