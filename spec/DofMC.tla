-------------------------------- MODULE DofMC --------------------------------
(* Small-scope model of Dof.tla: TLC enumerates EVERY container of up to two  *)
(* fields with up to 2 points and up to 2 components, every set of cell-less  *)
(* points and every pair of dof-mask boundaries, and checks on the spec's own *)
(* definitions that the partition is a partition (disjoint, covering), that   *)
(* the prescribed set is exactly the union of selections plus cell-less       *)
(* unknowns, and that Ext0 honours "last boundary wins".  It also checks the  *)
(* laws on hand-built records: a correct observation is accepted, each        *)
(* corrupted one is rejected by exactly the clause it targets.                *)
EXTENDS Dof

VARIABLES cfg, done
Field(np, dim, nocell) == [np |-> np, dim |-> dim, nocell |-> nocell, values |-> [n \in 1..(np * dim) |-> n],
                           coords |-> [p \in 1..np |-> <<p - 1>>]]
Masks(n) == [1..n -> {0, 1}]
Bnd(f, mask, v) == [field |-> f, kind |-> "dofmask", mask |-> mask, vkind |-> "scalar", value |-> <<v>>]
Configs ==
  {[fields |-> fs, bounds |-> bs] :
     fs \in UNION {[1..nf -> {Field(np, dim, nc) : np \in 1..2, dim \in 1..2, nc \in {<<>>, <<0>>}}] : nf \in 1..2},
     bs \in {<<>>}}
Init == cfg \in Configs /\ done = FALSE
\* second stage: all pairs of boundaries on the first field
Next == /\ ~done /\ done' = TRUE
        /\ \E m1, m2 \in Masks(cfg.fields[1].np * cfg.fields[1].dim) :
              cfg' = [cfg EXCEPT !.bounds = <<Bnd(1, m1, 7), Bnd(1, m2, 9)>>]
Spec == Init /\ [][Next]_<<cfg, done>>

Obs(c) == [c EXCEPT !.kind = "partition"]
IsPartition == Dof0(cfg) \cap Dof1(cfg) = {} /\ Dof0(cfg) \cup Dof1(cfg) = 0..(Total(cfg) - 1)
PrescribedIsUnion == Dof0(cfg) = NoCell(cfg) \cup UNION {Sel(cfg, cfg.bounds[b]) : b \in 1..Len(cfg.bounds)}
LastBoundaryWins ==
  Len(cfg.bounds) = 2 =>
    \A d \in Dof0(cfg) : ValAt(cfg, d, 2) = (IF d \in Sel(cfg, cfg.bounds[2]) THEN 9
                                               ELSE IF d \in Sel(cfg, cfg.bounds[1]) THEN 7 ELSE AllValues(cfg)[d + 1])
\* the observation a correct implementation would log is accepted; corrupted ones are rejected
Correct(c) == [id |-> "m", kind |-> "partition", fields |-> c.fields,
               bounds |-> [b \in 1..Len(c.bounds) |-> [field |-> c.bounds[b].field, kind |-> "dofmask", mask |-> c.bounds[b].mask,
                              vkind |-> "scalar", value |-> c.bounds[b].value,
                              dofobs |-> Sorted({d - Offset(c, c.bounds[b].field) : d \in Sel(c, c.bounds[b])}),
                              pointsobs |-> Sorted({pi[1] : pi \in SelPairs(c, c.bounds[b])})]],
               dof0 |-> Sorted(Dof0(c)), dof1 |-> Sorted(Dof1(c)),
               ext0 |-> [n \in 1..Cardinality(Dof0(c)) |-> ValAt(c, Sorted(Dof0(c))[n], Len(c.bounds))]]
LawsAcceptCorrect == Failing(Correct(cfg)) = {}
LawsRejectCorrupted ==
  LET ok == Correct(cfg) IN
  /\ (Len(ok.dof0) > 0 /\ Len(ok.dof1) > 0) =>
        "Dof0Exact" \in Failing([ok EXCEPT !.dof0 = Tail(ok.dof0), !.dof1 = Sorted(ToSet(ok.dof1) \cup {ok.dof0[1]}), !.ext0 = Tail(ok.ext0)])
  /\ Len(ok.ext0) > 0 => "Ext0Exact" \in Failing([ok EXCEPT !.ext0[1] = @ + 1])
  /\ Len(ok.dof0) > 1 => "Dof0Exact" \in Failing([ok EXCEPT !.dof0 = Reverse(ok.dof0)])
  /\ Len(ok.dof1) > 0 => "Cover" \in Failing([ok EXCEPT !.dof1 = Tail(ok.dof1)])
=============================================================================
