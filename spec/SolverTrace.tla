---------------------------- MODULE SolverTrace ----------------------------
(* Trace validation of the real felupe solver stack against Solver.tla.       *)
(*                                                                            *)
(* The trace file (IOEnv.TRACE_FILE, ndjson) holds the events emitted by      *)
(* harness/vh/tracer.py; several traces are batched in one file, separated by *)
(* TraceBegin / TraceEnd events.  Every event must be explained by the        *)
(* Solver.tla action of the same name with its parameters bound to the logged *)
(* fields; iterate / state-variable identities are the logged content digests.*)
(* The verdict is total: an unexplained event is recorded (Mismatch) and the  *)
(* state is resynchronised on the logged data so that the rest of the trace   *)
(* is still examined; the invariants of Solver.tla are evaluated after every  *)
(* step and their violations recorded as well.                                *)
EXTENDS Solver, Json, IOUtils, SequencesExt

UnknownTr == "?"
Trace == ndJsonDeserialize(IOEnv.TRACE_FILE)

VARIABLES l,      \* next trace line
          tid,    \* id of the running trace
          obs,    \* item -> committed digest as last logged (changes only through Commit)
          bad,    \* verdict: set of <<tid, what>>
          cnt,    \* event name -> number of matched events
          lost    \* the running trace has left the specification (first unexplained event seen): the re-synchronised model state is
                  \* not trusted for property-level verdicts any more; the rest of this trace is consumed without judgement
tvars == <<vars, l, tid, obs, bad, cnt, lost>>

E == Trace[l]
Is(ev) == l <= Len(Trace) /\ E.ev = ev
Adv == l' = l + 1
Bump(f, c) == [d \in DOMAIN f \cup {c} |-> (IF d \in DOMAIN f THEN f[d] ELSE 0) + (IF d = c THEN 1 ELSE 0)]
TrialOf(e) == [it \in DOMAIN e.sv |-> e.sv[it][2]]

ResetSolver ==
  /\ pc' = "Idle" /\ mode' = "none" /\ job' = NoJob /\ scfg' = NoStep
  /\ j' = 0 /\ i' = 0 /\ k' = 0 /\ maxiter' = 0
  /\ x' = Unknown /\ fieldver' = <<>> /\ x0ver' = Unknown
  /\ kin' = <<>> /\ trial' = <<>> /\ committed' = <<>> /\ committed0' = <<>>
  /\ pending' = {} /\ ramped' = {}
  /\ results' = <<>> /\ cbs' = <<>> /\ frames' = <<>> /\ time' = 0
  /\ returned' = {} /\ raised' = "none" /\ lastcheck' = "none"

TInit == Init /\ l = 1 /\ tid = "-" /\ obs = <<>> /\ bad = {} /\ cnt = <<>> /\ lost = FALSE

StepCfgOf(e) == [items |-> ToSet(e.items), first |-> e.first, stateful |-> ToSet(e.items), extra |-> ToSet(e.extra),
                 ramp |-> e.ramp, nsub |-> e.nsub, usex0 |-> e.usex0, x0id |-> e.x0]
NewtonCfgOf(e) == [items |-> ToSet(e.items), first |-> e.first, stateful |-> ToSet(e.items), extra |-> {},
                   ramp |-> <<>>, nsub |-> 0, usex0 |-> e.usex0, x0id |-> e.x0]

\* committed digests may only change through Commit events
ObsUnchanged(e) == \A it \in DOMAIN e.sv : Match(Get(obs, it), e.sv[it][1])
ObsOf(e) == UpdF(obs, [it \in DOMAIN e.sv |-> e.sv[it][1]])

TrBegin == Is("TraceBegin") /\ ResetSolver /\ tid' = E.tid /\ obs' = <<>>
TrJobBegin == Is("JobBegin") /\ JobBegin([kind |-> "job", nsteps |-> E.nsteps, usex0 |-> E.usex0, file |-> E.file], E.x0)
              /\ UNCHANGED <<tid, obs>>
TrStepBegin == Is("StepBegin") /\ StepBegin(StepCfgOf(E)) /\ UNCHANGED <<tid, obs>>
TrRamp == Is("RampUpdate") /\ RampUpdate(E.item, E.value) /\ UNCHANGED <<tid, obs>>
TrNewtonBegin == Is("NewtonBegin") /\ (NewtonEnter(E.maxiter) \/ NewtonStandalone(NewtonCfgOf(E), E.maxiter))
                 /\ UNCHANGED <<tid, obs>>
TrFun == /\ Is("FunItems")
         /\ \/ Resid0(E.x, TrialOf(E))
            \/ (E.x = x /\ Resid(TrialOf(E)))
         /\ DOMAIN E.sv = scfg.items
         /\ ObsUnchanged(E) /\ obs' = ObsOf(E) /\ UNCHANGED tid
TrJac == Is("JacItems") /\ Jac /\ E.x = x /\ UNCHANGED <<tid, obs>>
TrSolve == Is("Solve") /\ Solve /\ UNCHANGED <<tid, obs>>
TrUpdate == Is("Update") /\ Update(E.x) /\ UNCHANGED <<tid, obs>>
TrCommit == /\ Is("Commit") /\ Commit(E.item, E.had)
            /\ E.sv = (IF E.had THEN Get(trial, E.item) ELSE E.sv)       \* commits exactly the trial of this iterate
            /\ (~E.had => Match(Get(obs, E.item), E.sv))
            /\ obs' = UpdF(obs, [it \in {E.item} |-> E.sv]) /\ UNCHANGED tid
TrCheck == Is("Check") /\ Check(IF E.success THEN "conv" ELSE IF E.nan THEN "nan" ELSE "cont") /\ UNCHANGED <<tid, obs>>
TrReturn == Is("Return") /\ Return /\ E.success /\ E.iterations = k /\ E.x = x /\ UNCHANGED <<tid, obs>>
TrRaise == Is("Raise") /\ Raise /\ E.kind = raised /\ UNCHANGED <<tid, obs>>
TrCallback == Is("Callback") /\ Callback /\ E.x = x /\ E.step = j /\ E.sub = i /\ UNCHANGED <<tid, obs>>
TrFrame == Is("Frame") /\ Frame /\ E.time = time /\ E.x = x /\ UNCHANGED <<tid, obs>>
TrStepEnd == Is("StepEnd") /\ StepEnd /\ UNCHANGED <<tid, obs>>
TrJobEnd == Is("JobEnd") /\ JobEnd /\ UNCHANGED <<tid, obs>>
TrJobRaise == Is("JobRaise") /\ JobRaise /\ UNCHANGED <<tid, obs>>

\* end of one trace: a replayed TLC behaviour states what the model expects of the run
ExpectOK(e) ==
  IF DOMAIN e = {} THEN TRUE ELSE
     /\ Len(results) = e.nres
     /\ raised = e.raised
     /\ [n \in 1..Len(results) |-> results[n].iters] = e.iters
     /\ Len(cbs) = e.ncb /\ Len(frames) = e.nframes
     /\ \A it \in DOMAIN e.committed : Match(Get(obs, it), e.committed[it])
TrEnd == Is("TraceEnd") /\ pc = "Idle" /\ mode = "none" /\ ExpectOK(E.expect) /\ UNCHANGED <<vars, tid, obs>>

Matched == TrBegin \/ TrJobBegin \/ TrStepBegin \/ TrRamp \/ TrNewtonBegin \/ TrFun \/ TrJac \/ TrSolve
           \/ TrUpdate \/ TrCommit \/ TrCheck \/ TrReturn \/ TrRaise \/ TrCallback \/ TrFrame
           \/ TrStepEnd \/ TrJobEnd \/ TrJobRaise \/ TrEnd

InvNames == <<"CommittedIsReturned", "NoCommitOnFailure", "Dense", "IterationsBounded", "FramesFollowResults",
              "NothingAfterFailure", "RaiseOrReturn", "StartFromPrevious">>
InvHolds(n) == CASE n = "CommittedIsReturned" -> CommittedIsReturned
                 [] n = "NoCommitOnFailure" -> NoCommitOnFailure
                 [] n = "Dense" -> Dense
                 [] n = "IterationsBounded" -> IterationsBounded
                 [] n = "FramesFollowResults" -> FramesFollowResults
                 [] n = "NothingAfterFailure" -> NothingAfterFailure
                 [] n = "RaiseOrReturn" -> RaiseOrReturn
                 [] n = "StartFromPrevious" -> StartFromPrevious

Good == /\ (~lost \/ Is("TraceBegin")) /\ lost' = FALSE
        /\ Matched /\ Adv
        /\ cnt' = Bump(cnt, E.ev)
        /\ bad' = bad \cup {<<tid', "Invariant-" \o InvNames[n]>> : n \in {m \in 1..Len(InvNames) : ~InvHolds(InvNames[m])'}}

\* no action explains the event: record it, resynchronise on the logged data, go on
PcAfter(e) ==
  CASE e.ev = "TraceBegin" -> "Idle" [] e.ev = "JobBegin" -> "StepBegin" [] e.ev = "StepBegin" -> "Ramp"
    [] e.ev = "RampUpdate" -> "Ramp" [] e.ev = "NewtonBegin" -> "Resid0"
    [] e.ev = "FunItems" -> (IF pc \in {"Resid0", "Ramp", "Idle"} THEN "Jac" ELSE "Check")
    [] e.ev = "JacItems" -> "Solve" [] e.ev = "Solve" -> "Update" [] e.ev = "Update" -> "Resid"
    [] e.ev = "Commit" -> "Check"
    [] e.ev = "Check" -> (IF e.success THEN "Return" ELSE IF e.nan \/ k >= maxiter THEN "Raise" ELSE "Jac")
    [] e.ev = "Return" -> (IF mode = "job" THEN "Callback" ELSE IF mode = "step" THEN "Ramp" ELSE "Idle")
    [] e.ev = "Raise" -> (IF mode = "job" THEN "JobRaise" ELSE "Idle")
    [] e.ev = "Callback" -> (IF job.file THEN "Frame" ELSE "Ramp")
    [] e.ev = "Frame" -> "Ramp" [] e.ev = "StepEnd" -> (IF mode = "job" THEN "StepBegin" ELSE "Idle")
    [] OTHER -> "Idle"
\* Why an event is not explained, in terms of what the properties state (C07 / C15 / C20); evaluated on the state BEFORE the
\* resynchronisation.  An unexplained event without such a reason is a purely structural deviation from Solver.tla (an extra or
\* re-ordered evaluation, say): the harness reports "Mismatch-*" alone as specification drift, not as a violation.
Reasons(e) ==
  (IF e.ev = "FunItems" /\ ~ObsUnchanged(e) THEN {"StateChangedOutsideCommit"} ELSE {})
  \* the first residual of a Newton run is taken at the iterate the run has to start from: x0 as last linked to a converged substep
  \* (or as handed over), else the field left by the previous converged substep
  \cup (IF e.ev = "FunItems" /\ pc = "Resid0" /\ ~Match(StartIterate, e.x) THEN {"NotStartedFromPreviousState"} ELSE {})
  \cup (IF e.ev = "Commit" /\ e.had /\ e.sv # Get(trial, e.item) THEN {"CommitNotTrialOfIterate"} ELSE {})
  \cup (IF e.ev = "Commit" /\ ~e.had /\ ~Match(Get(obs, e.item), e.sv) THEN {"StateChangedOutsideCommit"} ELSE {})
  \cup (IF e.ev = "Commit" /\ pc \in {"Raise", "JobRaise"} THEN {"CommitOnFailurePath"} ELSE {})
  \cup (IF e.ev = "Return" /\ ~e.success THEN {"ReturnWithoutSuccess"} ELSE {})
  \cup (IF e.ev = "Return" /\ e.x # x THEN {"ReturnNotLastIterate"} ELSE {})
  \cup (IF e.ev = "Raise" /\ e.kind \notin {"nan", "maxiter"} THEN {"UndocumentedException"} ELSE {})
  \cup (IF e.ev = "Callback" /\ e.x # x THEN {"CallbackNotSubstepField"} ELSE {})
  \cup (IF e.ev = "Frame" /\ e.x # x THEN {"FrameNotSubstepField"} ELSE {})
  \cup (IF e.ev = "Frame" /\ e.time # time THEN {"FrameOutOfOrder"} ELSE {})
  \cup (IF e.ev = "TraceEnd" /\ DOMAIN e.expect # {} /\
           ~(Len(results) = e.expect.nres /\ raised = e.expect.raised /\ Len(cbs) = e.expect.ncb /\ Len(frames) = e.expect.nframes
             /\ \A it \in DOMAIN e.expect.committed : Match(Get(obs, it), e.expect.committed[it]))
        THEN {"OutcomeNotAsSpecified"} ELSE {})
Mismatch ==
  /\ l <= Len(Trace) /\ ~lost /\ ~ENABLED Matched /\ lost' = TRUE
  /\ bad' = bad \cup {<<tid, "Mismatch-" \o E.ev \o "-at-" \o pc>>} \cup {<<tid, c>> : c \in Reasons(E)}
  /\ pc' = PcAfter(E)
  /\ x' = IF "x" \in DOMAIN E THEN E.x ELSE x
  /\ mode' = IF PcAfter(E) = "Idle" THEN "none" ELSE mode
  /\ pending' = IF E.ev = "Commit" THEN pending \cup {E.item} ELSE IF E.ev = "FunItems" THEN {} ELSE pending
  /\ committed' = IF E.ev = "Commit" THEN Upd(committed, {E.item}, E.sv) ELSE committed
  /\ obs' = IF E.ev = "Commit" THEN UpdF(obs, [it \in {E.item} |-> E.sv])
            ELSE IF E.ev = "FunItems" THEN ObsOf(E) ELSE obs
  /\ trial' = IF E.ev = "FunItems" THEN UpdF(trial, TrialOf(E)) ELSE trial
  /\ kin' = IF E.ev = "FunItems" THEN Upd(kin, DOMAIN E.sv, E.x) ELSE kin
  /\ fieldver' = IF E.ev = "FunItems" THEN Upd(fieldver, DOMAIN E.sv, E.x) ELSE fieldver
  /\ k' = IF E.ev = "Update" THEN k + 1 ELSE IF E.ev = "NewtonBegin" THEN 0 ELSE k
  /\ maxiter' = IF E.ev = "NewtonBegin" THEN E.maxiter ELSE maxiter
  /\ raised' = IF E.ev = "Raise" THEN E.kind ELSE IF E.ev = "NewtonBegin" THEN "none" ELSE raised
  /\ ramped' = IF E.ev = "RampUpdate" THEN ramped \cup {E.item} ELSE IF PcAfter(E) = "Ramp" /\ pc # "Ramp" THEN {} ELSE ramped
  /\ i' = IF E.ev \in {"Callback", "Frame"} /\ PcAfter(E) = "Ramp" THEN i + 1 ELSE i
  /\ tid' = IF E.ev = "TraceBegin" THEN E.tid ELSE tid
  /\ Adv /\ UNCHANGED <<job, scfg, j, x0ver, committed0, results, cbs, frames, time, returned, lastcheck, cnt>>

\* after the first unexplained event of a trace: consume up to the next TraceBegin
Skip == /\ lost /\ l <= Len(Trace) /\ E.ev # "TraceBegin" /\ Adv /\ UNCHANGED <<vars, tid, obs, bad, cnt, lost>>
Finish == /\ l = Len(Trace) + 1
          /\ JsonSerialize(IOEnv.VERDICT_FILE, [bad |-> bad, cnt |-> cnt, n |-> Len(Trace)])
          /\ l' = l + 1 /\ UNCHANGED <<vars, tid, obs, bad, cnt, lost>>

TNext == Good \/ Mismatch \/ Skip \/ Finish
TSpec == TInit /\ [][TNext]_tvars
Consumed == TLCGet("stats").diameter = Len(Trace) + 2
=============================================================================
