-------------------------------- MODULE Region --------------------------------
(* C06 -- regions measure geometry and differentiate fields exactly where     *)
(* theory says so.  Laws over arrays logged from real regions / fields at     *)
(* scale S = 2^20; exact reference quantities are computed by TLC:            *)
(*   - geometric volumes of straight-sided lattice meshes (MeshOps.tla:       *)
(*     shoelace / determinants / Simpson-exact trilinear hexahedra),          *)
(*   - values, gradients and hessians of spec-issued integer-coefficient      *)
(*     polynomials at the logged quadrature-point coordinates.                *)
EXTENDS FixedPoint, TLC
MO == INSTANCE MeshOps

L10 == 1024
S == L10 * L10
M(a, b) == MulL(a, b, L10)
RECURSIVE PowSeq(_, _, _)
PowSeq(x, K, acc) == IF Len(acc) = K + 1 THEN acc ELSE PowSeq(x, K, Append(acc, M(acc[Len(acc)], x)))
Powers(x, K) == PowSeq(x, K, <<S>>)                       \* <<x^0 .. x^K>> at scale S
ProdSeq(sq) == FoldLeft(LAMBDA acc, v : M(acc, v), S, sq)

\* ---- volumes
Positive(r) == \A n \in 1..Len(r.dV) : r.dV[n] > 0
SumDV(r) == SumSeq(r.dV)
\* exact volume of the straight-sided lattice mesh r.mesh (coordinates * 8): Total / Units in (1/8)^dim units
ExactVolume(r) == LET m == r.mesh  t == MO!Total(m)  u == MO!Units(m.type)  k == S \div IPow(8, m.dim)
                  IN (t \div u) * k + ((t % u) * k) \div u
VolumeSum(r) == Abs(SumDV(r) - ExactVolume(r)) <= r.tol
\* rigid motion (rational rotation + translation) leaves every differential volume unchanged
\* (the sum, as the property states; point-wise as well for the non-enriched templates, whose geometry map is
\* a partition of unity -- the bubble node of the MINI templates takes part in the geometry map, see DESIGN 8)
RigidInvariance(r) == /\ Len(r.dV) = Len(r.dVmoved)
                      /\ Abs(SumSeq(r.dV) - SumSeq(r.dVmoved)) <= 4 + Len(r.dV)
                      /\ r.pointwise => \A n \in 1..Len(r.dV) : Abs(r.dV[n] - r.dVmoved[n]) <= 4
\* element families discretising the same straight-sided geometry measure the same volume
FamilyAgreement(r) == \A a, b \in 1..Len(r.volumes) : Abs(r.volumes[a] - r.volumes[b]) <= r.tol
\* a wrongly oriented cell is reported by a warning that names it
NegativeWarns(r) == r.warned /\ r.named
NoWarningWhenValid(r) == ~r.warned

\* ---- polynomial reproduction
\* r.polys[comp] = sequence of monomials [c |-> integer coefficient, e |-> exponent tuple]
\* r.xq[n] coordinates of evaluation point n; r.val[n][comp]; r.grad[n][(comp-1)*dim + j]; r.hess[n][((comp-1)*dim + j-1)*dim + k]
Pw(r, n) == [k \in 1..r.dim |-> Powers(r.xq[n][k], r.deg)]
MonoVal(P, m) == m.c * ProdSeq([k \in DOMAIN m.e |-> P[k][m.e[k] + 1]])
Dec(e, j) == [e EXCEPT ![j] = @ - 1]
MonoGrad(P, m, j) == IF m.e[j] = 0 THEN 0 ELSE m.e[j] * MonoVal(P, [c |-> m.c, e |-> Dec(m.e, j)])
MonoHess(P, m, j, k) ==
  IF j = k THEN (IF m.e[j] < 2 THEN 0 ELSE m.e[j] * (m.e[j] - 1) * MonoVal(P, [c |-> m.c, e |-> Dec(Dec(m.e, j), j)]))
  ELSE (IF m.e[j] = 0 \/ m.e[k] = 0 THEN 0 ELSE m.e[j] * m.e[k] * MonoVal(P, [c |-> m.c, e |-> Dec(Dec(m.e, j), k)]))
PolyVal(P, poly) == SumOver(1..Len(poly), LAMBDA t : MonoVal(P, poly[t]))
PolyGrad(P, poly, j) == SumOver(1..Len(poly), LAMBDA t : MonoGrad(P, poly[t], j))
PolyHess(P, poly, j, k) == SumOver(1..Len(poly), LAMBDA t : MonoHess(P, poly[t], j, k))
NC(r) == Len(r.polys)
ReproduceValue(r) ==
  \A n \in 1..Len(r.xq) : LET P == TLCEval(Pw(r, n)) IN
     \A c \in 1..NC(r) : Abs(r.val[n][c] - PolyVal(P, r.polys[c])) <= r.tolv
ReproduceGradient(r) ==
  \A n \in 1..Len(r.xq) : LET P == TLCEval(Pw(r, n)) IN
     \A c \in 1..NC(r) : \A j \in 1..r.dim : Abs(r.grad[n][(c - 1) * r.dim + j] - PolyGrad(P, r.polys[c], j)) <= r.tolg
ReproduceHessian(r) ==
  \A n \in 1..Len(r.xq) : LET P == TLCEval(Pw(r, n)) IN
     \A c \in 1..NC(r) : \A j \in 1..r.dim : \A k \in 1..r.dim :
        Abs(r.hess[n][((c - 1) * r.dim + j - 1) * r.dim + k] - PolyHess(P, r.polys[c], j, k)) <= r.tolh

\* ---- kinematics of the field kinds: F = 1 + grad u padded to 3 x 3; r.F[n] flat 3 x 3; r.gradu[n] flat dim x dim
FAt(r, n, i, j) == r.F[n][(i - 1) * 3 + j]
InPlaneIsIdentityPlusGrad(r) ==
  \A n \in 1..Len(r.F) : \A i \in 1..r.dim : \A j \in 1..r.dim :
     Abs(FAt(r, n, i, j) - (IF i = j THEN S ELSE 0) - r.gradu[n][(i - 1) * r.dim + j]) <= 2
\* plane strain: out-of-plane row / column of F is (0, 0, 1)
PlaneStrainPadding(r) == \A n \in 1..Len(r.F) : /\ FAt(r, n, 3, 3) = S
                                                /\ \A k \in 1..2 : FAt(r, n, 3, k) = 0 /\ FAt(r, n, k, 3) = 0
\* second derivatives of a 2-d field kind padded to d3 x d3 x d3: the in-plane block is the plain 2-d hessian, everything else zero
HessPadding(r) == /\ Len(r.H3) = Len(r.H2)
                  /\ \A n \in 1..Len(r.H3) : \A i \in 1..r.d3 : \A j \in 1..r.d3 : \A k \in 1..r.d3 :
                        r.H3[n][((i - 1) * r.d3 + (j - 1)) * r.d3 + k]
                          = IF i <= 2 /\ j <= 2 /\ k <= 2 THEN r.H2[n][((i - 1) * 2 + (j - 1)) * 2 + k] ELSE 0
\* axisymmetric: hoop stretch 1 + u_r / R with R the radial coordinate (second component) of the point
AxiHoop(r) == \A n \in 1..Len(r.F) : /\ Abs(M(FAt(r, n, 3, 3) - S, r.xq[n][2]) - r.u[n][2]) <= 8
                                     /\ \A k \in 1..2 : FAt(r, n, 3, k) = 0 /\ FAt(r, n, k, 3) = 0
\* dual (cell-wise constant) fields: one value per cell at all of its points
DualConstantPerCell(r) == \A c \in 1..Len(r.percell) : \A n \in 1..Len(r.percell[c]) : r.percell[c][n] = r.percell[c][1]
\* ... one INDEPENDENT unknown per cell: as many unknowns as cells, and (unknowns set to 1, 2, 3, ...) no two cells show the same value
DualIndependentPerCell(r) == /\ \A n \in 1..Len(r.nunknowns) : r.nunknowns[n] = r.ncells
                             /\ \A n \in 1..Len(r.cellvalue) : \A a, b \in 1..Len(r.cellvalue[n]) : a # b => r.cellvalue[n][a] # r.cellvalue[n][b]

\* ---- quadrature sufficiency, fast paths, copies
Near(a, b, tol) == Len(a) = Len(b) /\ \A n \in 1..Len(a) : Abs(a[n] - b[n]) <= tol
GramExact(r) == Near(r.gram, r.gramhigh, r.tol)                 \* default rule vs a higher rule on affine cells
UniformEqualsGeneral(r) == Near(r.a, r.b, 2)
AstypeCopy(r) == Near(r.a, r.b, r.tol)                          \* float32 copy agrees to float32 resolution

Clauses(r) == CASE r.kind = "volume" -> {"Positive", "VolumeSum", "NoWarningWhenValid"}
                [] r.kind = "positive" -> {"Positive", "NoWarningWhenValid"}
                [] r.kind = "rigid" -> {"RigidInvariance"}
                [] r.kind = "family" -> {"FamilyAgreement"}
                [] r.kind = "negative" -> {"NegativeWarns"}
                [] r.kind = "reproduce" -> {"ReproduceValue"} \cup (IF r.hasg THEN {"ReproduceGradient"} ELSE {}) \cup (IF r.hash THEN {"ReproduceHessian"} ELSE {})
                [] r.kind = "planestrain" -> {"InPlaneIsIdentityPlusGrad", "PlaneStrainPadding"}
                [] r.kind = "axisymmetric" -> {"InPlaneIsIdentityPlusGrad", "AxiHoop"}
                [] r.kind = "hesspad" -> {"HessPadding"}
                [] r.kind = "dual" -> {"DualConstantPerCell"}
                [] r.kind = "dualindep" -> {"DualConstantPerCell", "DualIndependentPerCell"}
                [] r.kind = "gram" -> {"GramExact"}
                [] r.kind = "uniform" -> {"UniformEqualsGeneral"}
                [] r.kind = "astype" -> {"AstypeCopy"}
HoldsR(c, r) == CASE c = "Positive" -> Positive(r) [] c = "VolumeSum" -> VolumeSum(r) [] c = "NoWarningWhenValid" -> NoWarningWhenValid(r)
                  [] c = "RigidInvariance" -> RigidInvariance(r) [] c = "FamilyAgreement" -> FamilyAgreement(r)
                  [] c = "NegativeWarns" -> NegativeWarns(r)
                  [] c = "ReproduceValue" -> ReproduceValue(r) [] c = "ReproduceGradient" -> ReproduceGradient(r)
                  [] c = "ReproduceHessian" -> ReproduceHessian(r)
                  [] c = "InPlaneIsIdentityPlusGrad" -> InPlaneIsIdentityPlusGrad(r) [] c = "PlaneStrainPadding" -> PlaneStrainPadding(r)
                  [] c = "AxiHoop" -> AxiHoop(r) [] c = "DualConstantPerCell" -> DualConstantPerCell(r) [] c = "HessPadding" -> HessPadding(r) [] c = "DualIndependentPerCell" -> DualIndependentPerCell(r)
                  [] c = "GramExact" -> GramExact(r) [] c = "UniformEqualsGeneral" -> UniformEqualsGeneral(r) [] c = "AstypeCopy" -> AstypeCopy(r)
ApplicableR(r) == Clauses(r)
FailingR(r) == {c \in Clauses(r) : ~HoldsR(c, r)}

\* reference instance: p = 2 + 3 x - x y + x^2 y at (x, y) = (1/2, 2): value 2 + 1.5 - 1 + 0.5 = 3, grad = (3 - y + 2xy, -x + x^2) = (3, -1/4),
\* hessian = ((2y, -1 + 2x), (-1 + 2x, 0)) = ((4, 0), (0, 0))
RefPoly == << [c |-> 2, e |-> <<0, 0>>], [c |-> 3, e |-> <<1, 0>>], [c |-> -1, e |-> <<1, 1>>], [c |-> 1, e |-> <<2, 1>>] >>
RefRep == [kind |-> "reproduce", dim |-> 2, deg |-> 3, polys |-> <<RefPoly>>, xq |-> << <<S \div 2, 2 * S>> >>, hasg |-> TRUE, hash |-> TRUE,
           val |-> << <<3 * S>> >>, grad |-> << <<3 * S, -(S \div 4)>> >>, hess |-> << <<4 * S, 0, 0, 0>> >>, tolv |-> 8, tolg |-> 8, tolh |-> 8]
ASSUME FailingR(RefRep) = {}
ASSUME FailingR([RefRep EXCEPT !.grad = << <<3 * S, S \div 4>> >>]) = {"ReproduceGradient"}
ASSUME FailingR([RefRep EXCEPT !.hess = << <<4 * S, 0, S, 0>> >>]) = {"ReproduceHessian"}
ASSUME FailingR([RefRep EXCEPT !.val = << <<3 * S + 100>> >>]) = {"ReproduceValue"}
=============================================================================
