SPECIFICATION Spec
CONSTANTS
  Levels = {1, 2, 3}
  MaxLen = 3
INVARIANTS WmaxIsRunningMax YieldNeverExceeded
PROPERTIES AlphaNeverDecreases WmaxNeverDecreases
CHECK_DEADLOCK FALSE
