----------------------------- MODULE ElementMC -----------------------------
(* Reference instances and negative examples for the laws of Element.tla.     *)
(* The tensor-product Lagrange bases of order p in {1,2}, dim in {1,2} are    *)
(* built here in exact integer arithmetic from their node sets by the product *)
(* formula (independent of felupe) in the very record layout the driver uses. *)
(*  - mut = "none":  TLC must find that NO clause fails  (laws not stricter   *)
(*                   than mathematics: anti-false-alarm)                      *)
(*  - each mutation: TLC must find that the clause it targets DOES fail       *)
(*                   (no clause is vacuous)                                   *)
EXTENDS Element

M == 4
Ext == 3
Sc == 262144
NodesX(p) == IF p = 1 THEN <<0, 4>> ELSE <<0, 4, 2>>     \* 1-d node positions (lattice units)

\* numerator / denominator of the 1-d Lagrange polynomial a at integer x
LNum(p, a, x) == FoldSet(LAMBDA b, acc : (IF b = a THEN 1 ELSE x - NodesX(p)[b]) * acc, 1, 1..(p + 1))
LDen(p, a) == LNum(p, a, NodesX(p)[a])
\* d/dx numerator (product rule)
DNum(p, a, x) == SumOver((1..(p + 1)) \ {a}, LAMBDA c :
                   FoldSet(LAMBDA b, acc : (IF b \in {a, c} THEN 1 ELSE x - NodesX(p)[b]) * acc, 1, 1..(p + 1)))
\* d2/dx2 numerator
DDNum(p, a, x) == IF p = 1 THEN 0 ELSE 2
\* values at scale Sc in the reference coordinate r (x = (r+1)*M/2, d/dr = (M/2) d/dx)
L0(p, a, x) == (Sc * LNum(p, a, x)) \div LDen(p, a)
L1(p, a, x) == (Sc * DNum(p, a, x) * (M \div 2)) \div LDen(p, a)
L2(p, a, x) == (Sc * DDNum(p, a, x) * (M \div 2) * (M \div 2)) \div LDen(p, a)
\* exact product of two scale-Sc numbers that are multiples of Sc/64 = 2^14
Pr(u, v) == (u \div 16384) * (v \div 16384) * (268435456 \div Sc)

Idx(d) == IF d = 1 THEN [i \in 1..(M + 2 * Ext + 1) |-> <<i - 1 - Ext>>]
          ELSE [n \in 1..((M + 2 * Ext + 1) * (M + 2 * Ext + 1)) |->
                  <<((n - 1) \div (M + 2 * Ext + 1)) - Ext, ((n - 1) % (M + 2 * Ext + 1)) - Ext>>]
\* function index (a1, a2) -> a1 + (p+1)*(a2-1)
Fn(p, d) == IF d = 1 THEN [a \in 1..(p + 1) |-> <<a>>]
            ELSE [a \in 1..((p + 1) * (p + 1)) |-> <<((a - 1) % (p + 1)) + 1, ((a - 1) \div (p + 1)) + 1>>]

HRef(p, d, I, a) == IF d = 1 THEN L0(p, a[1], I[1]) ELSE Pr(L0(p, a[1], I[1]), L0(p, a[2], I[2]))
GRef(p, d, I, a, j) ==
  IF d = 1 THEN L1(p, a[1], I[1])
  ELSE IF j = 1 THEN Pr(L1(p, a[1], I[1]), L0(p, a[2], I[2])) ELSE Pr(L0(p, a[1], I[1]), L1(p, a[2], I[2]))
HHRef(p, d, I, a, j, k) ==
  IF d = 1 THEN L2(p, a[1], I[1])
  ELSE IF j = 1 /\ k = 1 THEN Pr(L2(p, a[1], I[1]), L0(p, a[2], I[2]))
  ELSE IF j = 2 /\ k = 2 THEN Pr(L0(p, a[1], I[1]), L2(p, a[2], I[2]))
  ELSE Pr(L1(p, a[1], I[1]), L1(p, a[2], I[2]))

Flat2(nn, d, f(_, _)) == [n \in 1..(nn * d) |-> f(((n - 1) \div d) + 1, ((n - 1) % d) + 1)]
Flat3(nn, d, f(_, _, _)) == [n \in 1..(nn * d * d) |->
                               f(((n - 1) \div (d * d)) + 1, (((n - 1) \div d) % d) + 1, ((n - 1) % d) + 1)]

Ref(p, d) ==
  LET nn == Len(Fn(p, d)) fn == Fn(p, d) ix == Idx(d) IN
  [id |-> "ref", kind |-> "lattice", family |-> "cube", dim |-> d, p |-> p, nn |-> nn, nnodal |-> nn,
   nodes |-> [a \in 1..nn |-> [k \in 1..d |-> NodesX(p)[fn[a][k]]]],
   bubbles |-> <<>>, m |-> M, ext |-> Ext, S |-> Sc, stepnum |-> 2, stepden |-> M, hasH |-> TRUE,
   hmax |-> 2147483647 \div (128 * M), cmax |-> 1000, space |-> "Q",
   pts |-> [n \in 1..Len(ix) |->
             [h |-> [a \in 1..nn |-> HRef(p, d, ix[n], fn[a])],
              g |-> Flat2(nn, d, LAMBDA a, j : GRef(p, d, ix[n], fn[a], j)),
              H |-> Flat3(nn, d, LAMBDA a, j, k : HHRef(p, d, ix[n], fn[a], j, k))]]]

Centre(e) == Pos(e, [k \in 1..e.dim |-> 1])
Mutate(e, mut) ==
  CASE mut = "none" -> e
    [] mut = "grad_entry" -> [e EXCEPT !.pts[Centre(e)].g[1] = @ + Sc \div 8]
    [] mut = "hess_entry" -> [e EXCEPT !.pts[Centre(e)].H[e.dim * e.dim] = @ + Sc \div 8]
    [] mut = "hess_asym" -> [e EXCEPT !.pts[Centre(e)].H[2] = @ + Sc \div 8]
    [] mut = "swap_nodes" -> [e EXCEPT !.nodes[1] = e.nodes[2], !.nodes[2] = e.nodes[1]]
    [] mut = "scale_fun" -> [e EXCEPT !.pts = [n \in 1..Len(e.pts) |-> [e.pts[n] EXCEPT !.h[1] = 2 * @]]]
    [] mut = "raise_degree" -> [e EXCEPT !.pts[Centre(e)].h[1] = @ + Sc \div 8]
    [] mut = "huge" -> [e EXCEPT !.pts[Centre(e)].h[1] = 2000000000]
    [] mut = "bubble" -> [e EXCEPT !.bubbles = <<1>>]

Expected(mut, d) ==
  CASE mut = "none" -> {}
    [] mut = "grad_entry" -> {"GradIsDerivative", "HessIsDerivative"}
    [] mut = "hess_entry" -> {"HessIsDerivative"}
    [] mut = "hess_asym" -> IF d = 2 THEN {"HessSymmetric", "HessIsDerivative"} ELSE {"HessIsDerivative"}
    [] mut = "swap_nodes" -> {"Kronecker", "Completeness"}
    [] mut = "scale_fun" -> {"PartitionOfUnity", "Kronecker", "Completeness", "GradIsDerivative"}
    [] mut = "raise_degree" -> {"InTensorSpace", "GradIsDerivative", "PartitionOfUnity", "Completeness"}
    [] mut = "huge" -> {"Bounded"}
    [] mut = "bubble" -> {"BubbleVanishesOnBoundary"}

Muts == {"none", "grad_entry", "hess_entry", "hess_asym", "swap_nodes", "scale_fun", "raise_degree", "huge", "bubble"}

VARIABLES p, d, mut, verdict
Init == p \in 1..2 /\ d \in 1..2 /\ mut \in Muts /\ verdict = "todo"
Judge == /\ verdict = "todo"
         /\ verdict' = (IF LatticeFailing(Mutate(Ref(p, d), mut)) = Expected(mut, d) THEN "as-expected" ELSE "unexpected")
         /\ UNCHANGED <<p, d, mut>>
Spec == Init /\ [][Judge]_<<p, d, mut, verdict>>
LawsMatchMathematics == verdict # "unexpected"
=============================================================================
