------------------------------ MODULE History ------------------------------
(* C15 -- history machines of the path-dependent materials, as laws over the  *)
(* sequence of converged substeps of one job.                                 *)
(*                                                                            *)
(* A record is one job run on a spec-issued ramp (levels[i] = load level of   *)
(* substep i).  Per converged substep i it carries, per quadrature point q    *)
(* (fixed-point scale r.S):                                                   *)
(*   softening ("or"):  W[i][q]  energy of the BASE material at the converged *)
(*                      deformation (direct call, not the FE path),           *)
(*                      Wmax[i][q] stored maximum after the substep,          *)
(*                      P[i], Pb[i]  stress of the softening / base material  *)
(*                      (9 components per point, flattened point-major),      *)
(*                      u[i] nodal displacements                              *)
(*   plasticity ("pl"): alpha[i][q] equivalent plastic strain after substep i,*)
(*                      sig[i] stress (9 per point), parameters sy, K (scale S)*)
(*   elastic ("el"):    u[i] only                                             *)
(* The abstract machine is  wmax' = max(wmax, W)  (HistoryMC.tla).            *)
EXTENDS FixedPoint, TLC

NSub(r) == Len(r.levels)
NQ(r) == r.nq
Prev(seq, i, zero) == IF i = 1 THEN zero ELSE seq[i - 1]
Zero(r) == [q \in 1..NQ(r) |-> 0]

\* stored maximum energy = running maximum over the history
RunningMax(r) ==
  \A i \in 1..NSub(r) : \A q \in 1..NQ(r) :
     Abs(r.Wmax[i][q] - Max2(Prev(r.Wmax, i, Zero(r))[q], r.W[i][q])) <= 2
MaxMonotone(r) ==
  \A i \in 1..NSub(r) : \A q \in 1..NQ(r) : r.Wmax[i][q] >= Prev(r.Wmax, i, Zero(r))[q]
\* on the primary loading path (W reaches the stored maximum) the response is the base material's
PrimaryPathEqualsBase(r) ==
  \A i \in 1..NSub(r) : \A q \in 1..NQ(r) :
     r.W[i][q] >= Prev(r.Wmax, i, Zero(r))[q] =>
        \A c \in 1..9 : Abs(r.P[i][(q - 1) * 9 + c] - r.Pb[i][(q - 1) * 9 + c]) <= 4
\* below the maximum the response is softened, never stiffened (0 < eta <= 1 componentwise)
SoftenedBelowMax(r) ==
  \A i \in 1..NSub(r) : \A q \in 1..NQ(r) : \A c \in 1..9 :
     LET p == r.P[i][(q - 1) * 9 + c]  b == r.Pb[i][(q - 1) * 9 + c] IN
       Abs(p) <= Abs(b) + 4 /\ (Abs(b) > 64 => Sgn(p) = Sgn(b))
\* reloading retraces unloading: two substeps at the same level, none of them raising the maximum
\* level seen before and with the same maximum level behind them, have the same state
MaxLevelBefore(r, i) == FoldSet(LAMBDA n, acc : Max2(r.levels[n], acc), 0, 1..(i - 1))
Retraces(r, i, k) == /\ i < k /\ r.levels[i] = r.levels[k]
                     /\ MaxLevelBefore(r, i) >= r.levels[i]
                     /\ MaxLevelBefore(r, k) = MaxLevelBefore(r, i)          \* no new maximum between the two visits
ReloadRetracesUnload(r) ==
  \A i, k \in 1..NSub(r) : Retraces(r, i, k) =>
     \A n \in 1..Len(r.u[i]) : Abs(r.u[i][n] - r.u[k][n]) <= r.utol

\* plasticity: yield condition after every update,  s:s <= 2/3 (sy + K alpha)^2
L10 == 1024
M20(a, b) == MulL(a, b, L10)               \* product at scale 2^20
Sig(r, i, q, c) == r.sig[i][(q - 1) * 9 + c]
Tr(r, i, q) == Sig(r, i, q, 1) + Sig(r, i, q, 5) + Sig(r, i, q, 9)
Dev3(r, i, q, c) == 3 * Sig(r, i, q, c) - (IF c \in {1, 5, 9} THEN Tr(r, i, q) ELSE 0)     \* 3 * deviator
YieldHolds(r) ==
  \A i \in 1..NSub(r) : \A q \in 1..NQ(r) :
     LET ss9 == SumOver(1..9, LAMBDA c : M20(Dev3(r, i, q, c), Dev3(r, i, q, c)))     \* 9 s:s
         rad == r.sy + M20(r.K, r.alpha[i][q])
     IN ss9 <= 6 * M20(rad, rad) + r.ytol
PlasticStrainMonotone(r) ==
  \A i \in 1..NSub(r) : \A q \in 1..NQ(r) : r.alpha[i][q] >= Prev(r.alpha, i, Zero(r))[q] - 1

\* elastic: the final state depends on the final load only -- r.runs = <<[last |-> level, u |-> ...]>>
ElasticPathIndependence(r) ==
  \A a, b \in 1..Len(r.runs) : r.runs[a].last = r.runs[b].last =>
     \A n \in 1..Len(r.runs[a].u) : Abs(r.runs[a].u[n] - r.runs[b].u[n]) <= r.utol

\* vector-valued ramp: in every pass over the step (same Step object re-used, job re-evaluated) substep i prescribes row i of the
\* table as it was handed over (bit patterns)
RampRowApplied(r) == /\ Len(r.applied) % r.nsub = 0 /\ Len(r.applied) >= r.nsub
                     /\ \A n \in 1..Len(r.applied) : r.applied[n] = r.rows[((n - 1) % r.nsub) + 1]
Clauses(r) == CASE r.kind = "ramptable" -> {"RampRowApplied"} [] r.kind = "or" -> {"RunningMax", "MaxMonotone", "PrimaryPathEqualsBase", "SoftenedBelowMax", "ReloadRetracesUnload"}
                [] r.kind = "pl" -> {"YieldHolds", "PlasticStrainMonotone"}
                [] r.kind = "el" -> {"ElasticPathIndependence"}
Holds(c, r) == CASE c = "RunningMax" -> RunningMax(r)
                 [] c = "MaxMonotone" -> MaxMonotone(r)
                 [] c = "PrimaryPathEqualsBase" -> PrimaryPathEqualsBase(r)
                 [] c = "SoftenedBelowMax" -> SoftenedBelowMax(r)
                 [] c = "ReloadRetracesUnload" -> ReloadRetracesUnload(r)
                 [] c = "YieldHolds" -> YieldHolds(r)
                 [] c = "PlasticStrainMonotone" -> PlasticStrainMonotone(r)
                 [] c = "ElasticPathIndependence" -> ElasticPathIndependence(r)
                 [] c = "RampRowApplied" -> RampRowApplied(r)
Applicable(r) == Clauses(r)
Failing(r) == {c \in Clauses(r) : ~Holds(c, r)}
=============================================================================
