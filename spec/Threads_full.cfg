SPECIFICATION Spec
CONSTANTS
  N = 3
  Mode = "full"
INVARIANTS ScheduleIndependent JoinWaits
PROPERTY Terminates
