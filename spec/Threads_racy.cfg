SPECIFICATION Spec
CONSTANTS
  N = 2
  Mode = "racy"
INVARIANTS ScheduleIndependent JoinWaits
PROPERTY Terminates
