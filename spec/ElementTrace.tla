---------------------------- MODULE ElementTrace ----------------------------
(* C04 trace validation: one record per element formulation, produced by      *)
(* harness/vh/drivers/d04.py from the real felupe element classes.            *)
EXTENDS Element, Json, IOUtils
TraceData == ndJsonDeserialize(IOEnv.TRACE_FILE)
VARIABLES l, bad, cnt
R == INSTANCE LawRun WITH Trace <- TraceData, Failing <- Failing, Applicable <- Applicable
Spec == R!Spec
Consumed == R!Consumed
=============================================================================
