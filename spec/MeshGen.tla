------------------------------- MODULE MeshGen -------------------------------
(* C16, non-lattice part: generators and transformations whose coordinates    *)
(* are not lattice points (Circle, Triangle, arbitrary-order Lagrange meshes, *)
(* rotations by generic angles, mirrors with generic normals).  Coordinates   *)
(* are logged at scale S = 2^20; signed measures are computed by TLC with     *)
(* limb multiplication and compared with a tolerance stated per record.       *)
EXTENDS FixedPoint, TLC
L10 == 1024
S == L10 * L10
M(a, b) == MulL(a, b, L10)
P(m, c, a) == m.pts[m.cells[c][a] + 1]
Sub(u, v) == [k \in DOMAIN u |-> u[k] - v[k]]
Cross2(u, v) == M(u[1], v[2]) - M(u[2], v[1])
Det3(u, v, w) == M(u[1], M(v[2], w[3]) - M(v[3], w[2])) - M(u[2], M(v[1], w[3]) - M(v[3], w[1])) + M(u[3], M(v[1], w[2]) - M(v[2], w[1]))
Tet(m, c, a, b, d, e) == Det3(Sub(P(m, c, b), P(m, c, a)), Sub(P(m, c, d), P(m, c, a)), Sub(P(m, c, e), P(m, c, a)))   \* 6 V
\* six tetrahedra around the diagonal 1-7 of a VTK hexahedron (exact for planar faces)
HexTets == {<<1, 2, 3, 7>>, <<1, 3, 4, 7>>, <<1, 4, 8, 7>>, <<1, 8, 5, 7>>, <<1, 5, 6, 7>>, <<1, 6, 2, 7>>}
Kind(m) == m.base
\* measure * 2 (2-d) or * 6 (3-d)
Measure(m, c) ==
  CASE Kind(m) = "triangle" -> Cross2(Sub(P(m, c, 2), P(m, c, 1)), Sub(P(m, c, 3), P(m, c, 1)))
    [] Kind(m) = "quad" -> Cross2(Sub(P(m, c, 3), P(m, c, 1)), Sub(P(m, c, 4), P(m, c, 2)))
    [] Kind(m) = "tetra" -> Tet(m, c, 1, 2, 3, 4)
    [] Kind(m) = "hexahedron" -> SumOver(HexTets, LAMBDA t : Tet(m, c, t[1], t[2], t[3], t[4]))
Cells(m) == 1..Len(m.cells)
Positive(m, c) ==
  CASE Kind(m) = "quad" -> \A a \in 1..4 : Cross2(Sub(P(m, c, (a % 4) + 1), P(m, c, a)), Sub(P(m, c, ((a + 2) % 4) + 1), P(m, c, a))) > m.eps
    [] Kind(m) = "hexahedron" -> \A t \in HexTets : Tet(m, c, t[1], t[2], t[3], t[4]) > m.eps
    [] OTHER -> Measure(m, c) > m.eps
GenOriented(m) == \A c \in Cells(m) : Positive(m, c)
GenNoUnused(m) == UNION {ToSet(m.cells[c]) : c \in Cells(m)} = 0..(Len(m.pts) - 1)
GenNoDuplicate(m) == \A p, q \in 1..Len(m.pts) : p < q => \E k \in 1..m.dim : Abs(m.pts[p][k] - m.pts[q][k]) > 16
GenArea(m) == m.expect >= 0 => Abs(SumOver(Cells(m), LAMBDA c : Measure(m, c)) - m.expect) <= m.tol
\* boundary nodes of a Circle lie on the circle of the given radius
GenOnCircle(m) == \A n \in 1..Len(m.rim) : Abs(M(m.pts[m.rim[n] + 1][1], m.pts[m.rim[n] + 1][1]) + M(m.pts[m.rim[n] + 1][2], m.pts[m.rim[n] + 1][2]) - m.r2) <= 64
\* rigid image: per-cell measures equal to the parent's (same order of cells)
GenSameMeasures(m) == Len(m.parentmeasure) > 0 =>
                        \A c \in Cells(m) : Abs(Measure(m, c) - m.parentmeasure[c]) <= 64
Clauses(m) == {"GenOriented", "GenNoUnused", "GenNoDuplicate", "GenArea", "GenOnCircle", "GenSameMeasures"}
Holds(c, m) == CASE c = "GenOriented" -> GenOriented(m) [] c = "GenNoUnused" -> GenNoUnused(m) [] c = "GenNoDuplicate" -> GenNoDuplicate(m)
                 [] c = "GenArea" -> GenArea(m) [] c = "GenOnCircle" -> GenOnCircle(m) [] c = "GenSameMeasures" -> GenSameMeasures(m)
Applicable(m) == Clauses(m)
Failing(m) == {c \in Clauses(m) : ~Holds(c, m)}
=============================================================================
