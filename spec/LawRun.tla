------------------------------ MODULE LawRun ------------------------------
(* Generic total-verdict runner for law modules.  A trace is a sequence of   *)
(* records (one per case issued to the implementation).  For every record    *)
(* the instantiating module supplies                                         *)
(*   Applicable(r) : the set of clause names that apply to r                 *)
(*   Failing(r)    : the subset of those clauses that r violates             *)
(* The runner consumes one record per step, never stops at a failure, and    *)
(* writes the verdict {<<record id, clause>>}, the per-clause evaluation     *)
(* counts and the number of consumed records to IOEnv.VERDICT_FILE.          *)
EXTENDS Integers, Sequences, FiniteSets, TLC, Json, IOUtils
CONSTANTS Trace, Failing(_), Applicable(_)
VARIABLES l, bad, cnt

Init == l = 1 /\ bad = {} /\ cnt = [c \in {} |-> 0]

Bump(f, S) == [c \in DOMAIN f \cup S |-> (IF c \in DOMAIN f THEN f[c] ELSE 0) + (IF c \in S THEN 1 ELSE 0)]

Step == /\ l <= Len(Trace)
        \* a record of kind "exception" reports that the implementation raised on a case the spec issued:
        \* the public API must return a value on every valid case (clause NoException, always failing)
        /\ LET r == Trace[l]
               A == IF "kind" \in DOMAIN r /\ r.kind = "exception" THEN {"NoException"} ELSE Applicable(r)
               F == IF "kind" \in DOMAIN r /\ r.kind = "exception" THEN {"NoException"} ELSE Failing(r) IN
             /\ bad' = bad \cup {<<r.id, c>> : c \in F \cap A}
             /\ cnt' = Bump(cnt, A)
        /\ l' = l + 1

Finish == /\ l = Len(Trace) + 1
          /\ JsonSerialize(IOEnv.VERDICT_FILE, [bad |-> bad, cnt |-> cnt, n |-> Len(Trace)])
          /\ l' = l + 1 /\ UNCHANGED <<bad, cnt>>

Next == Step \/ Finish
Spec == Init /\ [][Next]_<<l, bad, cnt>>
\* every record was consumed and the verdict written (initial state + one per record + Finish)
Consumed == TLCGet("stats").diameter = Len(Trace) + 2
=============================================================================
