----------------------------- MODULE HistoryMC -----------------------------
(* The running-maximum machine of pseudo-elastic softening and the return-    *)
(* mapping machine of plasticity as abstract state machines over integer      *)
(* load levels.  TLC explores every ramp over Levels up to length MaxLen,      *)
(* checks the machine invariants, exports the ramps as the case set of the    *)
(* C15 driver (one job per ramp), and checks that reference histories built   *)
(* from the machines satisfy the laws of History.tla while mutated ones fail. *)
EXTENDS History, Json, IOUtils

CONSTANTS Levels, MaxLen

VARIABLES ramp,      \* levels applied so far
          wmax,      \* stored maximum "energy" (W(level) = level^2)
          alpha,     \* equivalent plastic strain of a 1-d return mapping with yield level Y0 + alpha
          sigma      \* 1-d stress
Energy(lv) == lv * lv
Y0 == 1
Init == ramp = <<>> /\ wmax = 0 /\ alpha = 0 /\ sigma = 0
Substep(lv) ==
  /\ Len(ramp) < MaxLen
  /\ ramp' = Append(ramp, lv)
  /\ wmax' = Max2(wmax, Energy(lv))
  \* elastic predictor around the previous level, plastic corrector (perfect 1-d analogue)
  /\ LET prev == IF ramp = <<>> THEN 0 ELSE ramp[Len(ramp)]
         trial == sigma + (lv - prev)
         f == Abs(trial) - (Y0 + alpha)
     IN IF f > 0 THEN alpha' = alpha + f /\ sigma' = Sgn(trial) * (Y0 + alpha) ELSE alpha' = alpha /\ sigma' = trial
Next == \E lv \in Levels : Substep(lv)
Spec == Init /\ [][Next]_<<ramp, wmax, alpha, sigma>>

WmaxIsRunningMax == wmax = FoldSet(LAMBDA n, acc : Max2(Energy(ramp[n]), acc), 0, 1..Len(ramp))
YieldNeverExceeded == Abs(sigma) <= Y0 + alpha
AlphaNeverDecreases == [][alpha' >= alpha]_<<ramp, wmax, alpha, sigma>>
WmaxNeverDecreases == [][wmax' >= wmax]_<<ramp, wmax, alpha, sigma>>

\* ---- export of the case set (all ramps) for the driver
\* all ramps up to MaxLen plus a few longer unload / reload cycles
Cycles == {<<3, 1, 2, 1>>, <<3, 2, 1, 2>>, <<2, 1, 2, 1, 2>>, <<3, 1, 3, 1, 2>>}
Ramps == UNION {[1..n -> Levels] : n \in 1..MaxLen} \cup Cycles
ASSUME JsonSerialize(IOEnv.CASES_FILE, [ramps |-> SetToSeq(Ramps)])

\* ---- reference histories for History.tla: one point, energies level^2 at scale 16
RefOR(rp) ==
  LET n == Len(rp)
      wm == [i \in 1..n |-> <<16 * FoldSet(LAMBDA k, acc : Max2(Energy(rp[k]), acc), 0, 1..i)>>]
      prim(i) == Energy(rp[i]) >= (IF i = 1 THEN 0 ELSE wm[i - 1][1] \div 16)
  IN [kind |-> "or", id |-> "ref", levels |-> rp, nq |-> 1, S |-> 16, utol |-> 0,
      W |-> [i \in 1..n |-> <<16 * Energy(rp[i])>>], Wmax |-> wm,
      Pb |-> [i \in 1..n |-> [c \in 1..9 |-> 160 * rp[i]]],
      P |-> [i \in 1..n |-> [c \in 1..9 |-> IF prim(i) THEN 160 * rp[i] ELSE 80 * rp[i]]],
      u |-> [i \in 1..n |-> <<rp[i]>>]]
ASSUME \A rp \in Ramps : Failing(RefOR(rp)) = {}
\* negatives: maximum reset on unloading / softened primary path / stiffened response / no retrace
ASSUME LET r == RefOR(<<2, 1, 2>>) IN
  /\ Failing([r EXCEPT !.Wmax[2] = <<16>>]) = {"RunningMax", "MaxMonotone"}
  /\ Failing([r EXCEPT !.P[1] = [c \in 1..9 |-> 100]]) = {"PrimaryPathEqualsBase"}
  /\ Failing([r EXCEPT !.P[2] = [c \in 1..9 |-> 400]]) = {"SoftenedBelowMax"}
ASSUME LET r == RefOR(<<2, 1, 2, 1>>) IN Failing([r EXCEPT !.u[4] = <<5>>]) = {"ReloadRetracesUnload"}
\* plasticity reference: deviatoric stress diag(2a,-a,-a)/... at the yield radius
RefPL == [kind |-> "pl", id |-> "refpl", levels |-> <<1, 2>>, nq |-> 1, S |-> 1048576, sy |-> 104858, K |-> 0, ytol |-> 4096,
          alpha |-> << <<0>>, <<1000>> >>,
          \* s = diag(2,-1,-1)*t : s:s = 6 t^2 <= 2/3 sy^2  <=> t <= sy/3
          sig |-> << <<2 * 30000, 0, 0, 0, -30000, 0, 0, 0, -30000>>, <<2 * 34000, 0, 0, 0, -34000, 0, 0, 0, -34000>> >>]
ASSUME Failing(RefPL) = {}
ASSUME Failing([RefPL EXCEPT !.sig[2] = <<2 * 40000, 0, 0, 0, -40000, 0, 0, 0, -40000>>]) = {"YieldHolds"}
ASSUME Failing([RefPL EXCEPT !.alpha[2] = <<-5>>]) = {"PlasticStrainMonotone"}
RefEL == [kind |-> "el", id |-> "refel", utol |-> 2, runs |-> << [last |-> 2, u |-> <<10, 20>>], [last |-> 2, u |-> <<11, 20>>], [last |-> 1, u |-> <<5, 9>>] >>]
ASSUME Failing(RefEL) = {} /\ Failing([RefEL EXCEPT !.runs[2].u = <<14, 20>>]) = {"ElasticPathIndependence"}
=============================================================================
