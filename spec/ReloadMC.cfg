SPECIFICATION Spec
CONSTANT MaxDepth = 2
INVARIANTS SaneInv Dump
PROPERTIES ReloadMakesFresh BareUpdateStales Isolation UniformIsNotSticky
CHECK_DEADLOCK FALSE
