------------------------------ MODULE SurfaceMC ------------------------------
(* Reference instances for the table laws of Surface.tla.  For the full       *)
(* tensor node sets {-1,1}^d and {-1,0,1}^d (d = 2, 3) a face table is BUILT  *)
(* from the rotation group (for each outward direction pick a proper rotation *)
(* R mapping -e_d to it and renumber the cell by R): TLC must accept it.      *)
(* Negative examples: swapping two nodes ON the quadrature face, an improper  *)
(* (mirrored) renumbering, a face listed twice -- each must be rejected.      *)
(* Swapping two nodes OFF the quadrature face must be ACCEPTED: it does not   *)
(* change any boundary quantity (this is the clause narrowed in DESIGN 5/C13).*)
EXTENDS Surface

VARIABLES d, full, variant, verdict
NodeSeq(dd, fl) == SetToSeq({x \in [1..dd -> (IF fl THEN {-1, 0, 1} ELSE {-1, 1})] : TRUE})
IndexOf(X, x) == CHOOSE n \in 1..Len(X) : X[n] = x
Dirs(dd) == SetToSeq((1..dd) \X {-1, 1})
RotFor(dd, ks) == CHOOSE R \in Rot(dd) : Apply(R, [k \in 1..dd |-> IF k = dd THEN -1 ELSE 0]) = [k \in 1..dd |-> IF k = ks[1] THEN ks[2] ELSE 0]
CornersFirst(X, S) == LET c == {n \in S : \A k \in DOMAIN X[n] : X[n][k] \in {-1, 1}} IN SetToSeq(c) \o SetToSeq(S \ c)
Table(dd, fl) ==
  LET X == NodeSeq(dd, fl)  D == Dirs(dd) IN
  [id |-> "ref", kind |-> "table", dim |-> dd, nn |-> Len(X), ncorner |-> IPow(2, dd - 1), X |-> X,
   cells |-> [f \in 1..Len(D) |-> [a \in 1..Len(X) |-> IndexOf(X, Apply(RotFor(dd, D[f]), X[a])) - 1]],
   faces |-> [f \in 1..Len(D) |-> [n \in DOMAIN CornersFirst(X, {m \in 1..Len(X) : X[m][D[f][1]] = D[f][2]}) |->
                                      CornersFirst(X, {m \in 1..Len(X) : X[m][D[f][1]] = D[f][2]})[n] - 1]]]
OnFace(r) == SetToSeq(QFace(r))
OffFace(r) == SetToSeq(Nodes(r) \ QFace(r))
Swap(seq, a, b) == [seq EXCEPT ![a + 1] = seq[b + 1], ![b + 1] = seq[a + 1]]
Mutate(r, v) ==
  CASE v = "none" -> r
    [] v = "swap_on_face" -> [r EXCEPT !.cells[1] = Swap(r.cells[1], OnFace(r)[1], OnFace(r)[2])]
    [] v = "swap_off_face" -> [r EXCEPT !.cells[1] = Swap(r.cells[1], OffFace(r)[1], OffFace(r)[2])]
    [] v = "mirrored" -> [r EXCEPT !.cells[2] = [a \in 1..r.nn |->
                            IndexOf(r.X, [k \in 1..r.dim |-> IF k = 1 THEN -r.X[r.cells[2][a] + 1][k] ELSE r.X[r.cells[2][a] + 1][k]]) - 1]]
    [] v = "face_twice" -> [r EXCEPT !.faces[2] = r.faces[1], !.cells[2] = r.cells[1]]
    [] v = "face_nodes_order" -> [r EXCEPT !.faces[1] = Reverse(r.faces[1])]
Expected(v, fl) ==
  CASE v = "none" -> {} [] v = "swap_off_face" -> {}
    [] v = "swap_on_face" -> {"FaceTableIsRotationOnFace"}
    [] v = "mirrored" -> {"FaceTableIsRotationOnFace", "FaceNodes"}
    [] v = "face_twice" -> {"AllFacesOnce"}
    [] v = "face_nodes_order" -> IF fl THEN {"FaceNodes"} ELSE {}
Init == d \in {2, 3} /\ full \in BOOLEAN /\ verdict = "todo"
        /\ variant \in {"none", "swap_on_face", "swap_off_face", "mirrored", "face_twice", "face_nodes_order"}
Judge == /\ verdict = "todo"
         /\ verdict' = (IF Failing(Mutate(Table(d, full), variant)) = Expected(variant, full) THEN "ok" ELSE "unexpected")
         /\ UNCHANGED <<d, full, variant>>
Spec == Init /\ [][Judge]_<<d, full, variant, verdict>>
LawsMatchGeometry == verdict # "unexpected"
RotationGroupOrder == Cardinality(Rot(2)) = 4 /\ Cardinality(Rot(3)) = 24
=============================================================================
