----------------------------- MODULE ReloadTrace -----------------------------
(* Trace validation of executed mesh / region programs: one record per step   *)
(* with the operation and the OBSERVED state before and after.  Observed      *)
(* versions: the driver numbers the point arrays it hands to Mesh.update      *)
(* (1, 2, ...) and recognises which one a cached array was computed from by   *)
(* comparing it with a freshly constructed region for every version (-1: the  *)
(* array matches no version).  Apply(observed pre, op) must equal observed    *)
(* post, clause by clause.                                                    *)
EXTENDS Reload, Json, IOUtils
TraceData == ndJsonDeserialize(IOEnv.TRACE_FILE)
\* Clauses the PROPERTY implies (C06: a region measures the geometry of its mesh):
\*   FreshAfterReload     after a reload of a region (direct, as the update's callback, by copy, at creation) its cached geometry
\*                        (and second derivatives, if evaluated) are those of the points of the mesh it holds
\*   CachedArraysGenuine  every cached array is the geometry of SOME version of the points (never a mixture or garbage)
\* Clauses of exact conformance with Reload!Apply (flags, bindings, staleness): a deviation is reported as specification
\* drift by the harness, not as a violation of the property.
Clauses(r) == {"FreshAfterReload", "CachedArraysGenuine",
               "EnabledInModel", "RegionsConform", "FlagsConform", "MeshBindingConforms", "GeometryVersionConforms", "HessianVersionConforms",
               "PointsVersionConforms"}
Reloaded(op) == CASE op.op \in {"create", "reload"} -> {op.r} [] op.op = "copy" -> {op.t}
                  [] op.op = "update" -> IF op.cb = None THEN {} ELSE {op.cb}
ObsMeshVer(o, x) == IF o.reg[x].own = 0 THEN o.pv ELSE o.reg[x].own
FreshAfterReload(r) == \A x \in Reloaded(r.op) \cap DOMAIN r.post.reg :
                          LET g == r.post.reg[x] IN
                          /\ g.grad => g.geo = ObsMeshVer(r.post, x)
                          /\ (g.grad /\ g.hess) => g.hes = ObsMeshVer(r.post, x)
CachedArraysGenuine(r) == r.post.pv >= 1 /\ \A x \in DOMAIN r.post.reg : r.post.reg[x].geo >= 0 /\ r.post.reg[x].hes >= 0 /\ r.post.reg[x].own >= 0
Applicable(r) == Clauses(r)
Cmp(m, o, Same(_, _)) == DOMAIN m.reg = DOMAIN o.reg => \A x \in DOMAIN m.reg : Same(m.reg[x], o.reg[x])
Failing(r) ==
  (IF FreshAfterReload(r) THEN {} ELSE {"FreshAfterReload"}) \cup (IF CachedArraysGenuine(r) THEN {} ELSE {"CachedArraysGenuine"}) \cup
  IF ~Enabled(r.pre, r.op) THEN {"EnabledInModel"}
  ELSE LET m == Apply(r.pre, r.op)  o == r.post IN
       (IF DOMAIN m.reg = DOMAIN o.reg THEN {} ELSE {"RegionsConform"})
       \cup (IF m.pv = o.pv THEN {} ELSE {"PointsVersionConforms"})
       \cup (IF Cmp(m, o, LAMBDA a, b : a.grad = b.grad /\ a.hess = b.hess /\ a.uniform = b.uniform) THEN {} ELSE {"FlagsConform"})
       \cup (IF Cmp(m, o, LAMBDA a, b : a.own = b.own) THEN {} ELSE {"MeshBindingConforms"})
       \* arrays of an evaluation that was never switched on do not exist (version 0 on both sides)
       \cup (IF Cmp(m, o, LAMBDA a, b : a.geo = b.geo) THEN {} ELSE {"GeometryVersionConforms"})
       \cup (IF Cmp(m, o, LAMBDA a, b : a.hes = b.hes) THEN {} ELSE {"HessianVersionConforms"})
VARIABLES l, bad, cnt
R == INSTANCE LawRun WITH Trace <- TraceData, Failing <- Failing, Applicable <- Applicable
Spec == R!Spec
Consumed == R!Consumed
\* reference instances (ReloadRef.cfg)
G0 == [grad |-> TRUE, hess |-> FALSE, uniform |-> FALSE, own |-> 0, geo |-> 1, hes |-> 0]
RefU == [id |-> "ref", op |-> [op |-> "update", cb |-> "r1"], pre |-> [pv |-> 1, reg |-> [r1 |-> G0, r2 |-> G0]],
         post |-> [pv |-> 2, reg |-> [r1 |-> [G0 EXCEPT !.geo = 2], r2 |-> G0]]]
ASSUME Failing(RefU) = {}
\* the callback was not run / the other region was refreshed too
ASSUME Failing([RefU EXCEPT !.post.reg.r1.geo = 1]) = {"GeometryVersionConforms", "FreshAfterReload"}
ASSUME Failing([RefU EXCEPT !.post.reg.r2.geo = 2]) = {"GeometryVersionConforms"}
=============================================================================
