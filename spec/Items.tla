-------------------------------- MODULE Items --------------------------------
(* C01 / C14 -- laws of the items handed to the Newton solver.                *)
(*                                                                            *)
(* C01 tangent law.  For an item with vector r(u) and matrix K(u), direction  *)
(* d and step h = 2^-6, the driver evaluates the real assemble.vector at      *)
(* u +- s h d (s = 1, 2, 3) and logs the symmetric differences                *)
(*      D_s = r(u + s h d) - r(u - s h d)        at scale 2^22                *)
(* and K d (for unit directions: a column of the assembled matrix; for a      *)
(* lattice direction the matrix-vector product is formed HERE) at scale 2^18. *)
(* The 7-point central stencil  (45 D_1 - 9 D_2 + D_3) / (60 h)  is the       *)
(* derivative up to h^6 r^(7)/140; with these scales it reads in integers     *)
(*      45 D_1 - 9 D_2 + D_3  =  15 (K d)                                     *)
(* Items of a symmetric class (hyperelastic bodies, conservative constraints) *)
(* must have K = K^T; what fun_items / jac_items hand to the solver equals    *)
(* multiplier * (r, K).                                                       *)
(*                                                                            *)
(* C14 balance laws on nodal force vectors (lattice-exact current positions). *)
EXTENDS FixedPoint, TLC

\* ---- C01
TolT(v) == 96 + Abs(v) \div 8192
Kd(r, c) == IF r.cols[c].unit THEN r.cols[c].Kd
            ELSE [i \in 1..r.n |-> SumOver(1..r.n, LAMBDA j : r.K[(i - 1) * r.n + j] * r.cols[c].dir[j])]
Tangent(r) ==
  \A c \in 1..Len(r.cols) : LET kd == Kd(r, c) IN
    \A i \in 1..r.n :
       \* 45 D1 - 9 D2 + D3 - 15 K d, arranged so that no intermediate exceeds ~30 |D1| (32-bit: stiff items reach |D1| ~ 5e7)
       Abs(9 * (5 * r.cols[c].D1[i] - r.cols[c].D2[i]) + (r.cols[c].D3[i] - 15 * kd[i])) <= TolT(15 * kd[i])
SymmetricTangent(r) ==
  r.symmetric => \A i \in 1..r.n : \A j \in (i + 1)..r.n :
     Abs(r.K[(i - 1) * r.n + j] - r.K[(j - 1) * r.n + i]) <= 2 + Abs(r.K[(i - 1) * r.n + j]) \div 65536
\* the state stays in the admissible range on the whole stencil (spec predicate on logged data)
Admissible(r) == r.mindetF >= r.S \div 2
MultiplierVector(r) == \A i \in 1..Len(r.rasm) : Abs(r.ritems[i] - r.mult * r.rasm[i]) <= 2 + Abs(r.mult)
MultiplierMatrix(r) == \A i \in 1..Len(r.Kasm) : Abs(r.Kitems[i] - r.mult * r.Kasm[i]) <= 2 + Abs(r.mult)

\* ---- C14:  r.f nodal forces (scale S = 2^20) point-major with r.fd components, r.x current positions (scale r.XS, exact)
Pts(r) == 1..(Len(r.f) \div r.fd)
F(r, p, k) == r.f[(p - 1) * r.fd + k]
X(r, p, k) == r.x[(p - 1) * r.fd + k]
TolF(r) == 16 + Len(r.f)
ForceBalance(r) == \A k \in ToSet(r.dirs) : Abs(SumOver(Pts(r), LAMBDA p : F(r, p, k))) <= TolF(r)
\* sum x_a cross f_a about the point r.about (same units as x); positions are exact integers
MomentBalance(r) ==
  IF r.fd = 3 THEN
    \A k \in 1..3 : LET a == (k % 3) + 1  b == ((k + 1) % 3) + 1 IN
       Abs(SumOver(Pts(r), LAMBDA p : (X(r, p, a) - r.about[a]) * F(r, p, b) - (X(r, p, b) - r.about[b]) * F(r, p, a))) <= r.XS * TolF(r) * 4
  ELSE Abs(SumOver(Pts(r), LAMBDA p : (X(r, p, 1) - r.about[1]) * F(r, p, 2) - (X(r, p, 2) - r.about[2]) * F(r, p, 1))) <= r.XS * TolF(r) * 4
\* resultant of a load = expected resultant (issued exactly: r.expect at scale S)
Resultant(r) == \A k \in 1..r.fd : Abs(SumOver(Pts(r), LAMBDA p : F(r, p, k)) - r.expect[k]) <= TolF(r)
\* a point load assembles to exactly its values at the loaded points and zero elsewhere
PointLoadExact(r) == \A n \in 1..Len(r.f) : r.f[n] = r.expectf[n]
\* ... whatever the construction / update history and options: plain load = the values of the last update; ring load (axisymmetric
\* flag) = 2 pi r times these values (r = r.r8 / 8 exact, TwoPiS = 2 pi at scale 2^20); zero at every other point
TwoPiS == 6588397
PointLoadValues(r) ==
  \A p \in Pts(r) : \A k \in 1..r.fd :
     LET idx == {n \in 1..Len(r.pts) : r.pts[n] = p}
         want == IF idx = {} THEN 0
                 ELSE LET n == CHOOSE n \in idx : TRUE  v2 == r.vals2[(n - 1) * r.fd + k] IN         \* twice the value (half-integers)
                      IF r.axi THEN (v2 * r.r8[n] * (TwoPiS \div 2)) \div 8 ELSE v2 * 524288
     IN Abs(F(r, p, k) - want) <= (IF r.axi THEN 16 ELSE 0)
\* no force along a skipped axis of a multi-point item
SkippedAxesFree(r) == \A k \in ToSet(r.skipped) : \A p \in Pts(r) : F(r, p, k) = 0
\* follower pressure on flat-sided (bilinear) faces: sum f = - p * sum of the vector areas, and the vector area of a
\* bilinear quadrilateral is half the cross product of its diagonals (exact); r.faces[n] = its 4 point ids (zero-based)
Cross3(u, v) == <<u[2] * v[3] - u[3] * v[2], u[3] * v[1] - u[1] * v[3], u[1] * v[2] - u[2] * v[1]>>
XP(r, p) == [k \in 1..3 |-> X(r, p + 1, k)]
SubV(u, v) == [k \in 1..3 |-> u[k] - v[k]]
Area2Raw(r, fc) == Cross3(SubV(XP(r, fc[3]), XP(r, fc[1])), SubV(XP(r, fc[4]), XP(r, fc[2])))    \* 2 * area vector * XS^2
\* oriented OUT of the (convex) body: away from its centre r.centre4 (4 * XS * centre), whatever the node order of the face
FaceOut4(r, fc) == [k \in 1..3 |-> SumOver(1..4, LAMBDA n : XP(r, fc[n])[k]) - r.centre4[k]]
Area2(r, fc) == LET a == Area2Raw(r, fc)  o == FaceOut4(r, fc) IN
                IF a[1] * o[1] + a[2] * o[2] + a[3] * o[3] >= 0 THEN a ELSE [k \in 1..3 |-> -a[k]]
\* pressure p = r.pnum / r.pden
PressureResultant(r) ==
  \A k \in 1..3 :
     Abs(SumOver(Pts(r), LAMBDA p : F(r, p, k))
         + (r.pnum * SumOver(1..Len(r.faces), LAMBDA n : Area2(r, r.faces[n])[k]) * (r.S \div (2 * r.XS * r.XS))) \div r.pden) <= TolF(r)
\* mass matrix: symmetric, total mass per direction, positive semi-definite on every vector of {-1,0,1}^n (one direction block)
MassSymmetric(r) == \A i \in 1..r.n : \A j \in 1..r.n : r.M[(i - 1) * r.n + j] = r.M[(j - 1) * r.n + i]
MassTotal(r) == \A k \in 1..r.fd :
                   Abs(SumOver({ij \in (1..r.n) \X (1..r.n) : ij[1] % r.fd = k % r.fd /\ ij[2] % r.fd = k % r.fd},
                               LAMBDA ij : r.M[(ij[1] - 1) * r.n + ij[2]]) - r.mass) <= 16 + r.n
MassCrossDirectionsZero(r) == \A i \in 1..r.n : \A j \in 1..r.n : (i % r.fd # j % r.fd) => r.M[(i - 1) * r.n + j] = 0
MassPSD(r) == \A v \in [1..Len(r.block) -> {-1, 0, 1}] :
                 SumOver((1..Len(r.block)) \X (1..Len(r.block)), LAMBDA ij : v[ij[1]] * v[ij[2]] * r.M[(r.block[ij[1]] - 1) * r.n + r.block[ij[2]]]) >= -r.n

Clauses(r) == CASE r.kind = "tangent" -> IF Admissible(r) THEN {"Tangent", "SymmetricTangent"} ELSE {}
                [] r.kind = "multiplier" -> {"MultiplierVector", "MultiplierMatrix"}
                [] r.kind = "balance" -> {"ForceBalance"} \cup (IF r.moment THEN {"MomentBalance"} ELSE {})
                                         \cup (IF "skipped" \in DOMAIN r THEN {"SkippedAxesFree"} ELSE {})
                [] r.kind = "pointload2" -> {"PointLoadValues"}
                [] r.kind = "resultant" -> {"Resultant"}
                [] r.kind = "pointload" -> {"PointLoadExact"}
                [] r.kind = "pressure" -> {"PressureResultant"}
                [] r.kind = "mass" -> {"MassSymmetric", "MassTotal", "MassCrossDirectionsZero", "MassPSD"}
Holds(c, r) == CASE c = "Tangent" -> Tangent(r) [] c = "SymmetricTangent" -> SymmetricTangent(r)
                 [] c = "MultiplierVector" -> MultiplierVector(r) [] c = "MultiplierMatrix" -> MultiplierMatrix(r)
                 [] c = "ForceBalance" -> ForceBalance(r) [] c = "MomentBalance" -> MomentBalance(r)
                 [] c = "Resultant" -> Resultant(r) [] c = "PointLoadExact" -> PointLoadExact(r)
                 [] c = "PressureResultant" -> PressureResultant(r)
                 [] c = "PointLoadValues" -> PointLoadValues(r) [] c = "SkippedAxesFree" -> SkippedAxesFree(r)
                 [] c = "MassSymmetric" -> MassSymmetric(r) [] c = "MassTotal" -> MassTotal(r)
                 [] c = "MassCrossDirectionsZero" -> MassCrossDirectionsZero(r) [] c = "MassPSD" -> MassPSD(r)
Applicable(r) == Clauses(r)
Failing(r) == {c \in Clauses(r) : ~Holds(c, r)}

\* ---- reference instance: r(u) = (u1^3 + 2 u1 u2, u1^2 + 3 u2) at u = (1, 2), K = ((3u1^2+2u2, 2u1), (2u1, 3)) = ((7, 2), (2, 3))
\* direction e1, h = 1/64: D_s = r(u + s h e1) - r(u - s h e1): first comp: 2(3 s h + (s h)^3) + 4 s h = 14 s h + 2 (s h)^3 ; second: 4 s h
Rat(num, den) == (4194304 \div den) * num          \* num/den at scale 2^22 for den a power of two
RefT == [kind |-> "tangent", n |-> 2, S |-> 1048576, mindetF |-> 1048576, symmetric |-> TRUE,
         K |-> <<7 * 262144, 2 * 262144, 2 * 262144, 3 * 262144>>,
         cols |-> << [unit |-> TRUE, Kd |-> <<7 * 262144, 2 * 262144>>,
                      D1 |-> <<Rat(14, 64) + Rat(2, 262144), Rat(4, 64)>>,
                      D2 |-> <<Rat(28, 64) + Rat(16, 262144), Rat(8, 64)>>,
                      D3 |-> <<Rat(42, 64) + Rat(54, 262144), Rat(12, 64)>>] >>]
ASSUME Failing(RefT) = {}
ASSUME Failing([RefT EXCEPT !.cols[1].Kd = <<7 * 262144, 3 * 262144>>]) = {"Tangent"}
ASSUME Failing([RefT EXCEPT !.K[2] = 3 * 262144]) = {"SymmetricTangent"}
ASSUME Failing([RefT EXCEPT !.mindetF = 1000]) = {}
=============================================================================
