----------------------------- MODULE AssemblyMC -----------------------------
(* Reference instances for Assembly.tla built by hand (two cells sharing a    *)
(* point, one quadrature point, two local nodes) and negative examples.       *)
EXTENDS Assembly
\* field: 3 points, dim 1, cells <<0,1>>, <<1,2>>; h = (2, 3) in cell 1, (1, -1) in cell 2; dh axis 0: (1, -1), (2, 0)
F1 == [np |-> 3, dim |-> 1, cells |-> << <<0, 1>>, <<1, 2>> >>,
       h |-> << << <<2, 1>> >>, << <<3, -1>> >> >>,
       dh |-> << << << <<1, 2>> >> >>, << << <<-1, 0>> >> >> >>]
\* value-value bilinear, scalar integrand fun = (5, 7) per cell, weights (1, 2):
\*  cell 1: 5 * [2,3]^T [2,3] * 1 = [[20,30],[30,45]];  cell 2: 7 * [1,-1]^T[1,-1] * 2 = [[14,-14],[-14,14]]
RefVV == [kind |-> "bilinear", mode |-> 3, axi |-> FALSE, gdim |-> 1, nq |-> 1, nc |-> 2, fields |-> <<F1>>, w |-> << <<1, 2>> >>,
          blocks |-> << [i |-> 1, j |-> 1, gv |-> FALSE, gu |-> FALSE, absent |-> FALSE, fshape |-> <<>>, fun |-> <<5, 7>>, vaxis |-> FALSE, uaxis |-> FALSE] >>,
          obs |-> << <<20, 30, 0>>, <<30, 59, -14>>, <<0, -14, 14>> >>]
\* grad-grad: fun (1,1,1,1) = (3, 4): cell 1: 3*[1,-1]^T[1,-1]*1 ; cell 2: 4*[2,0]^T[2,0]*2 = [[32,0],[0,0]]
RefGG == [RefVV EXCEPT !.blocks = << [i |-> 1, j |-> 1, gv |-> TRUE, gu |-> TRUE, absent |-> FALSE, fshape |-> <<1, 1, 1, 1>>, fun |-> <<3, 4>>,
                                      vaxis |-> TRUE, uaxis |-> TRUE] >>,
                       !.obs = << <<3, -3, 0>>, <<-3, 35, 0>>, <<0, 0, 0>> >>]
\* linear, value space: fun = (5, 7): cell 1: 5*[2,3]*1, cell 2: 7*[1,-1]*2
RefL == [RefVV EXCEPT !.kind = "linear", !.mode = 1,
                      !.blocks = << [i |-> 1, j |-> 0, gv |-> FALSE, gu |-> FALSE, absent |-> FALSE, fshape |-> <<>>, fun |-> <<5, 7>>, vaxis |-> FALSE, uaxis |-> FALSE] >>,
                      !.obs = <<10, 29, -14>>]
ASSUME Failing(RefVV) = {} /\ Failing(RefGG) = {} /\ Failing(RefL) = {}
ASSUME Failing([RefVV EXCEPT !.obs[2][3] = 14]) = {"BilinearSum"}                      \* sign of one entry
ASSUME Failing([RefGG EXCEPT !.obs = << <<3, -3, 0>>, <<-3, 3, 0>>, <<0, 0, 32>> >>]) = {"BilinearSum"}   \* contribution placed at the wrong point
ASSUME Failing([RefL EXCEPT !.obs = <<10, 15, 0>>]) = {"LinearSum"}                    \* second cell dropped (broadcast error)
ASSUME Failing([RefVV EXCEPT !.blocks[1].absent = TRUE]) = {"BilinearSum"}             \* an absent block must be zero
VARIABLE x
Init == x = 0
Next == UNCHANGED x
Spec == Init /\ [][Next]_x
=============================================================================
