SPECIFICATION TSpec
CONSTANT Unknown <- UnknownTr
POSTCONDITION Consumed
CHECK_DEADLOCK FALSE
