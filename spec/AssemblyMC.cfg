SPECIFICATION Spec
