SPECIFICATION Spec
CONSTANT MaxDepth = 12
INVARIANTS SaneInv Dump
CHECK_DEADLOCK FALSE
