SPECIFICATION Spec
CONSTANT MaxDepth = 4
INVARIANTS SaneInv
PROPERTIES ReloadMakesFresh BareUpdateStales Isolation UniformIsNotSticky
CHECK_DEADLOCK FALSE
