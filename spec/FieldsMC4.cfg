SPECIFICATION Spec
CONSTANT MaxDepth = 4
INVARIANTS WF
PROPERTIES InPlaceKeepsStructure Independence Visibility CopyIsFresh PlusIsPure LinkAliases JoinShares GlobalNumbering
CHECK_DEADLOCK FALSE
