------------------------------ MODULE BagTrace ------------------------------
(* Trace validation of executed mesh-container programs (driver d16b): one    *)
(* record per executed step with the operation, the observed heap before and  *)
(* after, the argument mesh (`arg`) and the returned mesh (`ret`) if any.     *)
EXTENDS Bag, Json, IOUtils
TraceData == ndJsonDeserialize(IOEnv.TRACE_FILE)
Ops == {"new", "append", "pop", "merge", "stack", "copy", "asvertex"}
Clauses(r) ==
  {"SharedPoints", "IndicesValid", "OthersUntouched"} \cup
  CASE r.op.op = "new" -> {"HoldsArguments"} \cup (IF r.op.merge THEN {"NoDuplicatePointsAfterMerge"} ELSE {})
    [] r.op.op = "append" -> {"OldCellsKeepCoordinates", "AppendedEqualsArgument"}
    [] r.op.op = "pop" -> {"PoppedIsListed", "RestKeepCoordinates"}
    [] r.op.op = "merge" -> {"OldCellsKeepCoordinates", "NoDuplicatePointsAfterMerge"}
    [] r.op.op = "stack" -> {"StackIsConcatenation", "Unchanged"}
    [] r.op.op = "copy" -> {"CopyEqualsSource", "CopyIsFresh", "Unchanged"}
    [] r.op.op = "asvertex" -> {"VertexMeshCoversUsedPoints", "Unchanged"}
Applicable(r) == Clauses(r)
Holds(cl, r) ==
  LET pre == r.pre  post == r.post  c == r.op.c IN
  CASE cl = "SharedPoints" -> SharedPoints(post)
    [] cl = "IndicesValid" -> IndicesValid(post)
    [] cl = "OthersUntouched" -> OthersUntouched(pre, post, IF r.op.op = "copy" THEN r.op.t ELSE c)
    \* new container from a list of argument meshes (in order)
    [] cl = "HoldsArguments" -> /\ Has(post, c) /\ Len(Meshes(post, c)) = Len(r.args)
                                /\ \A n \in 1..Len(r.args) : SameMeshGeometry(r.argheap, r.args[n], post, Meshes(post, c)[n])
    [] cl = "NoDuplicatePointsAfterMerge" -> NoDuplicatePoints(post, c)
    [] cl = "OldCellsKeepCoordinates" -> /\ Len(Meshes(post, c)) = Len(Meshes(pre, c)) + (IF r.op.op = "append" THEN 1 ELSE 0)
                                         /\ KeepRange(pre, post, c, 1, Len(Meshes(pre, c)), 0)
    [] cl = "AppendedEqualsArgument" -> Len(Meshes(post, c)) >= 1 /\ SameMeshGeometry(r.argheap, r.args[1], post, Meshes(post, c)[Len(Meshes(post, c))])
    [] cl = "PoppedIsListed" -> SameMeshGeometry(pre, Meshes(pre, c)[r.op.i + 1], post, r.ret)
    [] cl = "RestKeepCoordinates" -> /\ Len(Meshes(post, c)) = Len(Meshes(pre, c)) - 1
                                     /\ KeepRange(pre, post, c, 1, r.op.i, 0) /\ KeepRange(pre, post, c, r.op.i + 2, Len(Meshes(pre, c)), -1)
    [] cl = "StackIsConcatenation" -> r.ret.type = Meshes(pre, c)[1].type /\ Coords(post, r.ret) = Cat(pre, Meshes(pre, c), 1)
    [] cl = "Unchanged" -> Untouched(pre, post, c)
    [] cl = "CopyEqualsSource" -> /\ Has(post, r.op.t) /\ Len(Meshes(post, r.op.t)) = Len(Meshes(pre, c))
                                  /\ \A n \in 1..Len(Meshes(pre, c)) : SameMeshGeometry(pre, Meshes(pre, c)[n], post, Meshes(post, r.op.t)[n])
    [] cl = "CopyIsFresh" -> post.cont[r.op.t].points # post.cont[c].points
    [] cl = "VertexMeshCoversUsedPoints" ->
         /\ r.ret.type = "vertex" /\ Arr(post)[r.ret.pts] = Arr(post)[post.cont[c].points]
         /\ {r.ret.cells[k][1] : k \in 1..Len(r.ret.cells)}
              = UNION {UNION {ToSet(Meshes(pre, c)[n].cells[k]) : k \in 1..Len(Meshes(pre, c)[n].cells)} : n \in 1..Len(Meshes(pre, c))}
         /\ IsInjective([k \in 1..Len(r.ret.cells) |-> r.ret.cells[k][1]])
\* total verdicts: the coordinate clauses can only be evaluated on heaps whose cell indices are valid
MeshValid(o, m) == \A k \in 1..Len(m.cells) : \A a \in 1..Len(m.cells[k]) : m.cells[k][a] \in 0..(Len(Arr(o)[m.pts]) - 1)
AllValid(r) == IndicesValid(r.pre) /\ IndicesValid(r.post) /\ ("ret" \in DOMAIN r => MeshValid(r.post, r.ret))
Failing(r) == IF ~AllValid(r) THEN {"IndicesValid"} ELSE {cl \in Clauses(r) : ~Holds(cl, r)}
VARIABLES l, bad, cnt
R == INSTANCE LawRun WITH Trace <- TraceData, Failing <- Failing, Applicable <- Applicable
Spec == R!Spec
Consumed == R!Consumed
=============================================================================
