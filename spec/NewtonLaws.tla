----------------------------- MODULE NewtonLaws -----------------------------
(* C07 -- numeric clauses about returned Newton results and partitioned       *)
(* linear solves, evaluated by TLC on logged observables.                     *)
(*                                                                            *)
(* newton records (one per returned NewtonResult):                            *)
(*   xd / ext : IEEE-754 bit patterns (hex strings) of the returned field at  *)
(*              the prescribed unknowns and of the prescribed values          *)
(*   ratio    : |f1| / (1e-3 + |f0|) of the residual RE-ASSEMBLED by the      *)
(*              driver from res.x through freshly constructed items (not the  *)
(*              solver's own f), as <<24-bit mantissa, exponent>>             *)
(*   tol      : the solver tolerance, same format                             *)
(* partitioned records: integer systems with unimodular free block, so the    *)
(* exact solution is an integer vector; du is logged at scale S.              *)
EXTENDS FixedPoint, TLC

\* a < b for positive floats <<m, e>> with m in [2^23, 2^24) (m = 0: zero, m < 0: NaN/inf)
FLess(a, b) == /\ a[1] >= 0 /\ b[1] > 0
               /\ (a[1] = 0 \/ a[2] < b[2] \/ (a[2] = b[2] /\ a[1] < b[1]))

ReturnedMeansSuccess(r) == r.success
BCExact(r) == Len(r.xd) = r.n0 /\ Len(r.ext) = r.n0 /\ \A n \in 1..r.n0 : r.xd[n] = r.ext[n]
Equilibrium(r) == FLess(r.ratio, r.tol)
LinearOneStep(r) == r.linear => r.iterations = 1
IterationsWithinLimit(r) == r.iterations >= 1 /\ r.iterations <= r.maxiter

ReducedSystem(r) ==
  \A a \in 1..Len(r.dof1) :
     SumOver(1..Len(r.dof1), LAMBDA b : r.K[r.dof1[a]][r.dof1[b]] * r.du[r.dof1[b]])
       = r.S * (-r.r[r.dof1[a]]
                - SumOver(1..Len(r.dof0), LAMBDA c : r.K[r.dof1[a]][r.dof0[c]] * (r.ext0[c] - r.u[r.dof0[c]])))
PrescribedIncrement(r) == \A c \in 1..Len(r.dof0) : r.du[r.dof0[c]] = r.S * (r.ext0[c] - r.u[r.dof0[c]])

NewtonClauses == {"ReturnedMeansSuccess", "BCExact", "Equilibrium", "LinearOneStep", "IterationsWithinLimit"}
PartClauses == {"ReducedSystem", "PrescribedIncrement"}
Holds(c, r) == CASE c = "ReturnedMeansSuccess" -> ReturnedMeansSuccess(r)
                 [] c = "BCExact" -> BCExact(r)
                 [] c = "Equilibrium" -> Equilibrium(r)
                 [] c = "LinearOneStep" -> LinearOneStep(r)
                 [] c = "IterationsWithinLimit" -> IterationsWithinLimit(r)
                 [] c = "ReducedSystem" -> ReducedSystem(r)
                 [] c = "PrescribedIncrement" -> PrescribedIncrement(r)
Applicable(r) == IF r.kind = "newton" THEN NewtonClauses ELSE PartClauses
Failing(r) == {c \in Applicable(r) : ~Holds(c, r)}

\* reference instances / negative examples (checked at start-up)
RefN == [kind |-> "newton", success |-> TRUE, iterations |-> 3, linear |-> FALSE, maxiter |-> 8, n0 |-> 2,
         xd |-> <<"3ff0000000000000", "0000000000000000">>, ext |-> <<"3ff0000000000000", "0000000000000000">>,
         ratio |-> <<9000000, -40>>, tol |-> <<8388608, -26>>]
RefP == [kind |-> "partitioned", n |-> 3, S |-> 4, K |-> << <<1, 1, 5>>, <<1, 2, 7>>, <<9, 9, 9>> >>, r |-> <<1, -2, 0>>, u |-> <<0, 0, 1>>,
         ext0 |-> <<3>>, dof0 |-> <<3>>, dof1 |-> <<1, 2>>,
         \* K11 = [[1,1],[1,2]], rhs = -r1 - K10*(3-1) = (-1-10, 2-14) = (-11,-12): du1 = (-10, -1); du0 = 2
         du |-> <<-40, -4, 8>>]
ASSUME Failing(RefN) = {} /\ Failing(RefP) = {}
ASSUME Failing([RefN EXCEPT !.xd[2] = "8000000000000000"]) = {"BCExact"}          \* -0.0 is not the prescribed +0.0 bit pattern
ASSUME Failing([RefN EXCEPT !.ratio = <<9000000, -26>>]) = {"Equilibrium"}
ASSUME Failing([RefN EXCEPT !.ratio = <<-1, 0>>]) = {"Equilibrium"}
ASSUME Failing([RefN EXCEPT !.linear = TRUE]) = {"LinearOneStep"}
ASSUME Failing([RefN EXCEPT !.success = FALSE, !.iterations = 9]) = {"ReturnedMeansSuccess", "IterationsWithinLimit"}
ASSUME Failing([RefP EXCEPT !.du[3] = 0]) = {"PrescribedIncrement"}
ASSUME Failing([RefP EXCEPT !.du[1] = -36]) = {"ReducedSystem"}
=============================================================================
