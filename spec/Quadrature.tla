----------------------------- MODULE Quadrature -----------------------------
(* C05 -- laws of quadrature schemes, evaluated by TLC in 2^28 fixed point.   *)
(*                                                                            *)
(* A rule record r carries the points r.x (n tuples of dim coordinates) and   *)
(* the NORMALISED weights r.w = w_q / |domain| at scale S = 2^28, so that all *)
(* logged numbers are <= 1 in magnitude.  Reference domains and their exact   *)
(* normalised monomial integrals (rationals):                                 *)
(*   cube  [-1,1]^d :  prod_i (k_i even ? 1/(k_i+1) : 0)                      *)
(*   tri   x,y>=0, x+y<=1      :  2 a! b! / (a+b+2)!                          *)
(*   tet   x,y,z>=0, x+y+z<=1  :  6 a! b! c! / (a+b+c+3)!                     *)
(*   sphere (unit surface, unit total weight, antipodally symmetrised):       *)
(*          odd total degree: 0 by symmetrisation (not evaluated);            *)
(*          all exponents even: prod (k_i-1)!! / (1*3*5*...*(|k|+1)); else 0  *)
(*   face  (boundary variant): the (d-1)-rule on the face  x_d = -1           *)
EXTENDS FixedPoint, TLC

L == 16384
S == L * L                      \* 2^28
Mul(a, b) == MulL(a, b, L)

RECURSIVE PowSeq(_, _, _)
\* <<x^0, x^1, ..., x^K>> as a concrete tuple (entry k+1 holds x^k)
PowSeq(x, K, acc) == IF Len(acc) = K + 1 THEN acc ELSE PowSeq(x, K, Append(acc, Mul(acc[Len(acc)], x)))
Powers(x, K) == PowSeq(x, K, <<S>>)

RECURSIVE Fact(_)
Fact(n) == IF n <= 1 THEN 1 ELSE n * Fact(n - 1)
RECURSIVE DFact(_)
DFact(n) == IF n <= 1 THEN 1 ELSE n * DFact(n - 2)

Total(ex) == SumOver(DOMAIN ex, LAMBDA i : ex[i])
\* exact normalised integral of the monomial with exponent tuple ex, as <<num, den>>
ExactND(r, ex) ==
  CASE r.family = "cube" ->
         IF \E i \in DOMAIN ex : ex[i] % 2 = 1 THEN <<0, 1>>
         ELSE <<1, FoldSet(LAMBDA i, acc : (ex[i] + 1) * acc, 1, DOMAIN ex)>>
    [] r.family = "tri" -> <<2 * Fact(ex[1]) * Fact(ex[2]), Fact(ex[1] + ex[2] + 2)>>
    [] r.family = "tet" -> <<6 * Fact(ex[1]) * Fact(ex[2]) * Fact(ex[3]), Fact(ex[1] + ex[2] + ex[3] + 3)>>
    [] r.family = "sphere" ->
         IF \E i \in DOMAIN ex : ex[i] % 2 = 1 THEN <<0, 1>>
         ELSE <<FoldSet(LAMBDA i, acc : DFact(ex[i] - 1) * acc, 1, DOMAIN ex), DFact(Total(ex) + 1)>>
Exact(r, ex) == LET nd == ExactND(r, ex) IN RoundDiv(S, nd[2]) * nd[1]   \* num <= 6*6!.. small; error <= num/2 ulp

\* monomials the rule must integrate exactly (r.deg: per axis for cube, total degree otherwise)
AllMonos(r) ==
  IF r.family = "cube" THEN [1..r.dim -> 0..r.deg]
  ELSE { ex \in [1..r.dim -> 0..r.deg] : Total(ex) <= r.deg /\ (r.family = "sphere" => Total(ex) % 2 = 0) }
\* quick tier (r.mode = "axisdiag"): one axis only, all exponents equal, or exponents in {0, 1, deg-1, deg}
Monos(r) ==
  IF r.mode = "full" THEN AllMonos(r)
  ELSE { ex \in AllMonos(r) :
           \/ Cardinality({i \in DOMAIN ex : ex[i] # 0}) <= 1
           \/ \A i, j \in DOMAIN ex : ex[i] = ex[j]
           \/ \A i \in DOMAIN ex : ex[i] \in {0, 1, r.deg - 1, r.deg} }

MomTol(r) == 256 + 4 * r.n
Moments(r) ==
  LET P == TLCEval([q \in 1..r.n |-> [i \in 1..r.dim |-> Powers(r.x[q][i], r.deg)]]) IN
  \A ex \in Monos(r) :
     Abs(SumOver(1..r.n, LAMBDA q :
           Mul(r.w[q], FoldSet(LAMBDA i, acc : Mul(P[q][i][ex[i] + 1], acc), S, 1..r.dim)))
         - Exact(r, ex)) <= MomTol(r)

WeightSum(r) == Abs(SumOver(1..r.n, LAMBDA q : r.w[q]) - S) <= r.n + 4

Inside(r) ==
  \A q \in 1..r.n :
    CASE r.family = "cube" -> \A i \in 1..r.dim : Abs(r.x[q][i]) <= S
      [] r.family \in {"tri", "tet"} -> /\ \A i \in 1..r.dim : r.x[q][i] >= 0
                                        /\ SumOver(1..r.dim, LAMBDA i : r.x[q][i]) <= S + r.dim
      [] r.family = "sphere" -> Abs(SumOver(1..r.dim, LAMBDA i : Mul(r.x[q][i], r.x[q][i])) - S) <= 64

RuleClauses == {"Moments", "WeightSum", "Inside"}
\* powers of coordinates beyond the box [-1,1]^d would overflow: such a rule already fails Inside
InBox(r) == \A q \in 1..r.n : \A i \in 1..r.dim : Abs(r.x[q][i]) <= S
RuleFailing(r) == (IF Inside(r) THEN {} ELSE {"Inside"})
                  \cup (IF WeightSum(r) THEN {} ELSE {"WeightSum"})
                  \cup (IF InBox(r) /\ ~Moments(r) THEN {"Moments"} ELSE {})

\* --------------------------------------------------------- structural records
(* tensor: r.x / r.w the d-dim rule, r.x1 / r.w1 the 1-d rule of the same order (n1 points):      *)
(* the point multiset is the d-fold product of the 1-d rule, weights are the products.            *)
Idx1(r, c) == CHOOSE i \in 1..r.n1 : r.x1[i] = c
TensorStructure(r) ==
  /\ r.n = IPow(r.n1, r.dim)
  /\ r.n1 = r.expect1                               \* n points per axis for the documented degree
  /\ \A q \in 1..r.n : \A k \in 1..r.dim : \E i \in 1..r.n1 : r.x1[i] = r.x[q][k]
  /\ (\A q \in 1..r.n : \A k \in 1..r.dim : \E i \in 1..r.n1 : r.x1[i] = r.x[q][k]) =>
       /\ \A p, q \in 1..r.n : p # q => r.x[p] # r.x[q]
       /\ \A q \in 1..r.n :
            Abs(r.w[q] - FoldSet(LAMBDA k, acc : Mul(r.w1[Idx1(r, r.x[q][k])], acc), S, 1..r.dim)) <= 16

(* boundary: r.x / r.w the boundary variant in dim d, r.xb / r.wb the (d-1)-dim rule *)
BoundaryVariant(r) ==
  /\ r.n = Len(r.xb)
  /\ \A q \in 1..r.n : /\ r.x[q][r.dim] = -S
                       /\ \A k \in 1..(r.dim - 1) : r.x[q][k] = r.xb[q][k]
                       /\ r.w[q] = r.wb[q]

(* permute: r.x / r.w permuted, r.xu / r.wu unpermuted: same multiset of (point, weight) pairs *)
PermuteOnlyReorders(r) ==
  /\ r.n = Len(r.xu)
  /\ \A q \in 1..r.n : \E p \in 1..r.n : r.xu[p] = r.x[q] /\ r.wu[p] = r.w[q]
  /\ \A p, q \in 1..r.n : p # q => r.x[p] # r.x[q]

(* inverse: r.xi / r.wi = scheme.inv(): non-zero coordinates inverted, weights kept.             *)
(* logged at the coarser scale r.Si (1/x up to ~ 60): xi * x = Si * S within rounding             *)
InverseScheme(r) ==
  /\ r.n = Len(r.xi)
  /\ \A q \in 1..r.n : r.wi[q] = r.w[q]
  /\ \A q \in 1..r.n : \A k \in 1..Len(r.x[q]) :
        IF r.x[q][k] = 0 THEN r.xi[q][k] = 0
        ELSE Abs(MulL(r.xi[q][k], r.x[q][k], L) - r.Si) <= 8 + Abs(r.xi[q][k]) \div r.Si

Applicable(r) == CASE r.kind = "rule" -> RuleClauses
                   [] r.kind = "tensor" -> {"TensorStructure"}
                   [] r.kind = "boundary" -> {"BoundaryVariant"}
                   [] r.kind = "permute" -> {"PermuteOnlyReorders"}
                   [] r.kind = "inverse" -> {"InverseScheme"}
Failing(r) == CASE r.kind = "rule" -> RuleFailing(r)
                [] r.kind = "tensor" -> IF TensorStructure(r) THEN {} ELSE {"TensorStructure"}
                [] r.kind = "boundary" -> IF BoundaryVariant(r) THEN {} ELSE {"BoundaryVariant"}
                [] r.kind = "permute" -> IF PermuteOnlyReorders(r) THEN {} ELSE {"PermuteOnlyReorders"}
                [] r.kind = "inverse" -> IF InverseScheme(r) THEN {} ELSE {"InverseScheme"}
=============================================================================
