-------------------------------- MODULE Patch --------------------------------
(* C09 -- boundary value problems whose exact solution is a homogeneous       *)
(* deformation are solved exactly, independent of the mesh.                   *)
(*                                                                            *)
(* patch records: the affine map u = H X (H = r.H16 / 16, lattice) is         *)
(* prescribed on the whole boundary of a lattice-distorted mesh (X = r.X16/16 *)
(* exact); the real Newton solver runs; TLC recomputes H X in integers and    *)
(* compares with the returned displacement at EVERY point and with the        *)
(* deformation gradient at every quadrature point (scale 2^20).               *)
(* curve records: uniaxial / biaxial characteristic-curve jobs.               *)
EXTENDS FixedPoint, TLC
S == 1048576
\* u_a = H X_a with X = r.X16 / r.xden (exact): (H16 X16) / (16 xden) at scale 2^20
Affine(r) == \A p \in 1..(Len(r.X16) \div r.dim) : \A i \in 1..r.dim :
               Abs(r.u[(p - 1) * r.dim + i] - (S \div (16 * r.xden)) * SumOver(1..r.dim, LAMBDA k : r.H16[(i - 1) * r.dim + k] * r.X16[(p - 1) * r.dim + k])) <= r.tol
\* F = 1 + H at every quadrature point (in-plane part for plane strain)
UniformF(r) == \A n \in 1..(Len(r.F) \div (r.dim * r.dim)) : \A ij \in (1..r.dim) \X (1..r.dim) :
                 Abs(r.F[(n - 1) * r.dim * r.dim + (ij[1] - 1) * r.dim + ij[2]]
                     - 65536 * ((IF ij[1] = ij[2] THEN 16 ELSE 0) + r.H16[(ij[1] - 1) * r.dim + ij[2]])) <= r.tol
\* a linear-in-u problem needs one iteration, a nonlinear one a handful
IterationsReasonable(r) == r.iterations >= 1 /\ r.iterations <= r.maxiter

\* ---- characteristic curves: per substep s: Fq[s] all quadrature-point F (9 per point), y[s] reaction, P[s] = material stress at the
\* mean F from a DIRECT material call (9 entries), x[s] tracked displacement
MaxOf(sq) == FoldLeft(LAMBDA a, b : IF b > a THEN b ELSE a, sq[1], sq)
MinOf(sq) == FoldLeft(LAMBDA a, b : IF b < a THEN b ELSE a, sq[1], sq)
Comp(fq, c) == [n \in 1..(Len(fq) \div 9) |-> fq[(n - 1) * 9 + c]]
HomogeneousF(r) == \A s \in 1..Len(r.Fq) : \A c \in 1..9 : MaxOf(Comp(r.Fq[s], c)) - MinOf(Comp(r.Fq[s], c)) <= r.tol
\* prescribed stretch reached: F_aa = 1 + x / L0 on the loaded axis a
StretchApplied(r) == \A s \in 1..Len(r.Fq) : Abs(Comp(r.Fq[s], r.axis * 4 - 3)[1] - S - (r.x[s] * r.invL16) \div 16) <= r.tol
\* lateral stresses vanish on the free faces (uniaxial: both lateral axes; biaxial: the third axis)
LateralStressFree(r) == \A s \in 1..Len(r.P) : \A n \in 1..Len(r.free) : Abs(r.P[s][r.free[n] * 4 - 3]) <= r.ptol
\* reaction force = first Piola-Kirchhoff stress * reference area (r.A16 = 16 * area)
Reaction(r) == \A s \in 1..Len(r.P) : Abs(r.y[s] - (r.P[s][r.axis * 4 - 3] * r.A16) \div 16) <= r.ptol * 4
\* material-level curve (ViewMaterial) agrees with the same analytic stress at the same stretch
CurveAgreesWithView(r) == \A s \in 1..Len(r.view) : Abs(r.view[s] - r.P[s][r.axis * 4 - 3]) <= r.ptol * 4
\* material-level uniaxial / planar / biaxial curves (compressible view: lateral stretches from a root solve) agree with the
\* stress of a direct material call at the deformation with independently solved lateral stretches
ViewCurveAgrees(r) == Len(r.view) = Len(r.ref) /\ \A s \in 1..Len(r.view) : Abs(r.view[s] - r.ref[s]) <= r.ptol
\* the final state is independent of the subdivision of the ramp
RampIndependence(r) == \A a, b \in 1..Len(r.finals) : \A n \in 1..Len(r.finals[a]) : Abs(r.finals[a][n] - r.finals[b][n]) <= r.tol

Clauses(r) == CASE r.kind = "patch" -> {"Affine", "UniformF", "IterationsReasonable"}
                [] r.kind = "curve" -> {"HomogeneousF", "StretchApplied", "LateralStressFree", "Reaction"} \cup (IF Len(r.view) > 0 THEN {"CurveAgreesWithView"} ELSE {})
                [] r.kind = "ramp" -> {"RampIndependence"} [] r.kind = "view" -> {"ViewCurveAgrees"}
Holds(c, r) == CASE c = "Affine" -> Affine(r) [] c = "UniformF" -> UniformF(r) [] c = "IterationsReasonable" -> IterationsReasonable(r)
                 [] c = "HomogeneousF" -> HomogeneousF(r) [] c = "StretchApplied" -> StretchApplied(r)
                 [] c = "LateralStressFree" -> LateralStressFree(r) [] c = "Reaction" -> Reaction(r)
                 [] c = "CurveAgreesWithView" -> CurveAgreesWithView(r) [] c = "RampIndependence" -> RampIndependence(r) [] c = "ViewCurveAgrees" -> ViewCurveAgrees(r)
Applicable(r) == Clauses(r)
Failing(r) == {c \in Clauses(r) : ~Holds(c, r)}
\* reference: H = ((1/8, 1/16), (0, -1/8)), point X = (1/2, 3/4): u = (1/16 + 3/64, -3/32)
ASSUME Failing([kind |-> "patch", dim |-> 2, H16 |-> <<2, 1, 0, -2>>, X16 |-> <<8, 12>>, xden |-> 16, u |-> <<114688, -98304>>, tol |-> 4,
                F |-> <<65536 * 18, 65536, 0, 65536 * 14>>, iterations |-> 3, maxiter |-> 8]) = {}
ASSUME "Affine" \in Failing([kind |-> "patch", dim |-> 2, H16 |-> <<2, 1, 0, -2>>, X16 |-> <<8, 12>>, xden |-> 16, u |-> <<114688, 98304>>, tol |-> 4,
                F |-> <<65536 * 18, 65536, 0, 65536 * 14>>, iterations |-> 3, maxiter |-> 8])
=============================================================================
