------------------------------- MODULE Reduced -------------------------------
(* C10 -- reduced, condensed and fast-path formulations equal their full      *)
(* counterparts.  Both sides of each equivalence are logged (scale 2^18 for   *)
(* matrices, 2^20 for vectors); the restriction / summation that relates them *)
(* is carried out HERE.                                                       *)
EXTENDS FixedPoint, TLC
Near(a, b, tol) == Len(a) = Len(b) /\ \A n \in 1..Len(a) : Abs(a[n] - b[n]) <= tol
\* ---- plane strain = unit-thickness one-layer slab with w = 0: the two layers of the slab (points p and p + n2) are tied
\* r.f2[(p,i)], r.f3[(P,I)] with P in 0..2 n2 - 1, I in 0..2; r.K2, r.K3 dense row major
F3(r, P, I) == r.f3[P * 3 + I + 1]
K3(r, P, I, Q, J) == r.K3[(P * 3 + I) * (6 * r.n2) + Q * 3 + J + 1]
PlaneStrainForce(r) == \A p \in 0..(r.n2 - 1) : \A i \in 0..1 :
                          Abs(r.f2[p * 2 + i + 1] - F3(r, p, i) - F3(r, p + r.n2, i)) <= r.tol
PlaneStrainStiffness(r) == \A p \in 0..(r.n2 - 1) : \A i \in 0..1 : \A s \in 0..(r.n2 - 1) : \A k \in 0..1 :
                              Abs(r.K2[(p * 2 + i) * (2 * r.n2) + s * 2 + k + 1]
                                  - K3(r, p, i, s, k) - K3(r, p, i, s + r.n2, k) - K3(r, p + r.n2, i, s, k) - K3(r, p + r.n2, i, s + r.n2, k)) <= r.tol
\* the out-of-plane forces of the slab cancel between the layers (w = 0 is a symmetry plane)
PlaneStrainOutOfPlane(r) == \A p \in 0..(r.n2 - 1) : Abs(F3(r, p, 2) + F3(r, p + r.n2, 2)) <= r.tol
\* ---- axisymmetric: nodal force = d Pi / d u with Pi = sum 2 pi R W dA (7-point stencil of the energy, step 2^-6)
AxiEnergyDerivative(r) == \A n \in 1..Len(r.f) : Abs(45 * r.D1[n] - 9 * r.D2[n] + r.D3[n] - 15 * r.f[n]) <= 128 + Abs(15 * r.f[n]) \div 4096
\* ---- axisymmetric vs revolved 3-d model: ring-summed forces of the revolved model with n segments approach the axisymmetric
\* forces with second order: the discrepancy drops at least 3x per doubling of n and is below r.bound + 1/64 of the largest force
\* at the finest level
MaxDiff(a, b) == FoldSet(LAMBDA n, acc : IF Abs(a[n] - b[n]) > acc THEN Abs(a[n] - b[n]) ELSE acc, 0, 1..Len(a))
AxiVsRevolved(r) ==
  LET d == [k \in 1..Len(r.rings) |-> MaxDiff(r.rings[k], r.f2)] IN
  /\ \A k \in 1..(Len(d) - 1) : 3 * d[k + 1] <= d[k] + 64
  /\ d[Len(d)] <= r.bound + MaxAbsSeq(r.f2) \div 64
\* ---- nearly-incompressible solid body (condensed p, J) = explicit three-field formulation with cell-wise constant p, J
CondensedVsThreeField(r) == Near(r.u, r.u3, r.tol) /\ Near(r.p, r.p3, r.tol) /\ Near(r.J, r.J3, r.tol)
\* ---- uniform-grid region gives the same vectors and matrices as the general region
UniformVsGeneral(r) == Near(r.fa, r.fb, 2) /\ Near(r.Ka, r.Kb, 2)
Clauses(r) == CASE r.kind = "planestrain" -> {"PlaneStrainForce", "PlaneStrainStiffness", "PlaneStrainOutOfPlane"}
                [] r.kind = "axienergy" -> {"AxiEnergyDerivative"} [] r.kind = "axirevolved" -> {"AxiVsRevolved"}
                [] r.kind = "condensed" -> {"CondensedVsThreeField"} [] r.kind = "uniform" -> {"UniformVsGeneral"}
Holds(c, r) == CASE c = "PlaneStrainForce" -> PlaneStrainForce(r) [] c = "PlaneStrainStiffness" -> PlaneStrainStiffness(r)
                 [] c = "PlaneStrainOutOfPlane" -> PlaneStrainOutOfPlane(r)
                 [] c = "AxiEnergyDerivative" -> AxiEnergyDerivative(r) [] c = "AxiVsRevolved" -> AxiVsRevolved(r)
                 [] c = "CondensedVsThreeField" -> CondensedVsThreeField(r) [] c = "UniformVsGeneral" -> UniformVsGeneral(r)
Applicable(r) == Clauses(r)
Failing(r) == {c \in Clauses(r) : ~Holds(c, r)}
\* reference: second-order convergence accepted, first-order rejected
ASSUME Failing([kind |-> "axirevolved", f2 |-> <<1000, -500>>, rings |-> << <<1160, -580>>, <<1040, -520>>, <<1010, -505>> >>, bound |-> 20]) = {}
ASSUME Failing([kind |-> "axirevolved", f2 |-> <<1000, -500>>, rings |-> << <<1400, -580>>, <<1200, -520>>, <<1100, -505>> >>, bound |-> 200]) = {"AxiVsRevolved"}
=============================================================================
