SPECIFICATION Spec
CONSTANT MaxDepth = 2
INVARIANTS TypeDim OrderMatches Dump
CHECK_DEADLOCK FALSE
