SPECIFICATION Spec
CONSTANTS
  N = 3
  Mode = "sym"
INVARIANTS ScheduleIndependent JoinWaits
PROPERTY Terminates
