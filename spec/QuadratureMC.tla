---------------------------- MODULE QuadratureMC ----------------------------
(* Reference instances (rules with rational points, built here from their     *)
(* textbook definitions) must satisfy the laws of Quadrature.tla; negative     *)
(* examples (one per clause) must be rejected.                                *)
EXTENDS Quadrature

Q(num, den) == (S \div den) * num + RoundDiv((S % den) * num, den)   \* round(S*num/den) without overflow
Rule(id, fam, dim, deg, x, w) ==
  [id |-> id, kind |-> "rule", family |-> fam, dim |-> dim, deg |-> deg, mode |-> "full", n |-> Len(w), x |-> x, w |-> w]

\* Gauss-Lobatto 3 points: (-1, 0, 1), weights (1/3, 4/3, 1/3) / 2, exact to degree 3
Lob3 == Rule("lobatto3", "cube", 1, 3, << <<-S>>, <<0>>, <<S>> >>, <<Q(1, 6), Q(2, 3), Q(1, 6)>>)
\* its 2-d tensor product
Lob3x3 == LET x1 == <<-S, 0, S>> w1 == <<Q(1, 6), Q(2, 3), Q(1, 6)>> IN
  Rule("lobatto3x3", "cube", 2, 3,
       [n \in 1..9 |-> <<x1[((n - 1) % 3) + 1], x1[((n - 1) \div 3) + 1]>>],
       [n \in 1..9 |-> Mul(w1[((n - 1) % 3) + 1], w1[((n - 1) \div 3) + 1])])
\* Gauss-Legendre 1 point (midpoint), exact to degree 1
Mid1 == Rule("midpoint", "cube", 1, 1, << <<0>> >>, <<S>>)
\* triangle: centroid (deg 1), 3 interior points (deg 2), 4 points with negative weight (deg 3)
Tri1 == Rule("tri1", "tri", 2, 1, << <<Q(1, 3), Q(1, 3)>> >>, <<S>>)
Tri2 == Rule("tri2", "tri", 2, 2, << <<Q(1, 6), Q(1, 6)>>, <<Q(2, 3), Q(1, 6)>>, <<Q(1, 6), Q(2, 3)>> >>, <<Q(1, 3), Q(1, 3), Q(1, 3)>>)
Tri3 == Rule("tri3", "tri", 2, 3, << <<Q(1, 3), Q(1, 3)>>, <<Q(3, 5), Q(1, 5)>>, <<Q(1, 5), Q(3, 5)>>, <<Q(1, 5), Q(1, 5)>> >>,
             <<-Q(9, 16), Q(25, 48), Q(25, 48), Q(25, 48)>>)
\* tetrahedron: centroid (deg 1), Keast 5 points with negative weight (deg 3)
Tet1 == Rule("tet1", "tet", 3, 1, << <<Q(1, 4), Q(1, 4), Q(1, 4)>> >>, <<S>>)
Tet3 == Rule("tet3", "tet", 3, 3,
             << <<Q(1, 6), Q(1, 6), Q(1, 6)>>, <<Q(1, 2), Q(1, 6), Q(1, 6)>>, <<Q(1, 6), Q(1, 2), Q(1, 6)>>,
                <<Q(1, 6), Q(1, 6), Q(1, 2)>>, <<Q(1, 4), Q(1, 4), Q(1, 4)>> >>,
             <<Q(9, 20), Q(9, 20), Q(9, 20), Q(9, 20), -Q(4, 5)>>)
\* octahedron rule on the sphere: 3 axis points (antipodally symmetrised), exact to degree 3
Oct == Rule("octahedron", "sphere", 3, 3, << <<S, 0, 0>>, <<0, S, 0>>, <<0, 0, S>> >>, <<Q(1, 3), Q(1, 3), Q(1, 3)>>)

Good == {Lob3, Lob3x3, Mid1, Tri1, Tri2, Tri3, Tet1, Tet3, Oct}

\* negative examples: <<record, clauses that must fail>>
Bad == {
  <<[Lob3 EXCEPT !.deg = 5], {"Moments"}>>,                                   \* lower-degree rule under a higher label
  <<[Tri2 EXCEPT !.deg = 3], {"Moments"}>>,
  <<[Tet3 EXCEPT !.x[4] = <<Q(1, 2), Q(1, 2), Q(1, 6)>>], {"Inside", "Moments"}>>,   \* the (b, b, a) typo
  <<[Tet3 EXCEPT !.x[2] = <<Q(1, 6), Q(1, 6), Q(1, 2)>>], {"Moments"}>>,      \* duplicated point (moved table entry)
  <<[Tri3 EXCEPT !.w[1] = Q(9, 16)], {"WeightSum", "Moments"}>>,              \* sign of a weight
  <<[Lob3x3 EXCEPT !.x[2] = <<-S, 0>>], {"Moments"}>>,                        \* transposed coordinate
  <<[Oct EXCEPT !.x[1] = <<S, S, 0>>], {"Inside", "Moments"}>>,
  <<[Mid1 EXCEPT !.x[1] = <<2 * S>>], {"Inside"}>>                            \* far outside: moments not evaluated
}

T33 == [id |-> "t", kind |-> "tensor", dim |-> 2, n |-> 9, n1 |-> 3, expect1 |-> 3, x |-> Lob3x3.x, w |-> Lob3x3.w,
        x1 |-> <<-S, 0, S>>, w1 |-> <<Q(1, 6), Q(2, 3), Q(1, 6)>>]
B2 == [id |-> "b", kind |-> "boundary", dim |-> 2, n |-> 3, x |-> << <<-S, -S>>, <<0, -S>>, <<S, -S>> >>, w |-> Lob3.w,
       xb |-> Lob3.x, wb |-> Lob3.w]
P3 == [id |-> "p", kind |-> "permute", n |-> 3, x |-> << <<-S>>, <<S>>, <<0>> >>, w |-> <<Q(1, 6), Q(1, 6), Q(2, 3)>>, xu |-> Lob3.x, wu |-> Lob3.w]
I2 == [id |-> "i", kind |-> "inverse", n |-> 2, Si |-> 1048576, x |-> << <<S \div 2>>, <<0>> >>, w |-> <<S \div 2, S \div 2>>,
       xi |-> << <<2097152>>, <<0>> >>, wi |-> <<S \div 2, S \div 2>>]
GoodS == {T33, B2, P3, I2}
BadS == { [T33 EXCEPT !.w[5] = @ + 1000], [T33 EXCEPT !.expect1 = 4], [T33 EXCEPT !.x[1] = <<0, 0>>],
          [B2 EXCEPT !.x[2] = <<0, S>>], [B2 EXCEPT !.w[1] = @ + 1],
          [P3 EXCEPT !.w[2] = Q(2, 3)], [P3 EXCEPT !.x[3] = <<S>>],
          [I2 EXCEPT !.xi[1] = <<1048576>>], [I2 EXCEPT !.wi[1] = 0] }

VARIABLES case, verdict
Cases == {<<"good", g>> : g \in Good} \cup {<<"bad", b>> : b \in Bad}
         \cup {<<"goodS", g>> : g \in GoodS} \cup {<<"badS", b>> : b \in BadS}
Init == case \in Cases /\ verdict = "todo"
Judge == /\ verdict = "todo"
         /\ verdict' = CASE case[1] = "good" -> IF RuleFailing(case[2]) = {} THEN "ok" ELSE "unexpected"
                         [] case[1] = "bad" -> IF RuleFailing(case[2][1]) = case[2][2] THEN "ok" ELSE "unexpected"
                         [] case[1] = "goodS" -> IF Failing(case[2]) = {} THEN "ok" ELSE "unexpected"
                         [] case[1] = "badS" -> IF Failing(case[2]) # {} THEN "ok" ELSE "unexpected"
         /\ UNCHANGED case
Spec == Init /\ [][Judge]_<<case, verdict>>
LawsMatchMathematics == verdict # "unexpected"
=============================================================================
