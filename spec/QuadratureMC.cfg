SPECIFICATION Spec
INVARIANT LawsMatchMathematics
CHECK_DEADLOCK FALSE
