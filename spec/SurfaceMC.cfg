SPECIFICATION Spec
INVARIANTS LawsMatchGeometry RotationGroupOrder
CHECK_DEADLOCK FALSE
