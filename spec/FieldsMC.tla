------------------------------ MODULE FieldsMC ------------------------------
(* Program space of Fields.tla: every sequence of container operations up to  *)
(* MaxDepth from two independent two-field containers a, b (field sizes 4, 2) *)
(* and an unbound name c.  TLC checks the structural theorems of the heap     *)
(* model on every transition and exports every program (PROGRAM|...); the     *)
(* driver d08f executes each program on real FieldContainers and FieldsTrace  *)
(* judges every executed step against Apply.                                  *)
EXTENDS Fields

CONSTANTS MaxDepth
VARIABLES st, prog
vars == <<st, prog>>
Names == {"a", "b", "c"}
Kinds == {"add", "sub", "mul", "div"}
Ops == [op : {"iop"}, c : Names, kind : Kinds, v : {1, 2}]
       \cup [op : {"fiop"}, c : Names, k : 1..4, kind : {"add", "mul"}, v : {1}]
       \cup [op : {"fill"}, c : Names, k : 1..4, v : {3}]
       \cup [op : {"link"}, a : Names, b : Names]
       \cup {o \in [op : {"copy"}, a : Names, t : Names] : o.a # o.t}
       \cup {o \in [op : {"plus"}, a : Names, kind : Kinds, v : {1}, t : Names] : o.a # o.t}
       \cup [op : {"ffop"}, c : Names, k : 1..2, d : Names, j : 1..2, kind : {"add", "sub"}]
       \cup [op : {"join"}, a : Names, b : Names, t : Names]

S0 == [cont |-> [c \in {"a", "b"} |-> IF c = "a" THEN <<1, 2>> ELSE <<3, 4>>],
       fobj |-> [fo \in 1..4 |-> fo],
       heap |-> [ar \in 1..4 |-> IF ar \in {1, 3} THEN <<0, 0, 0, 0>> ELSE <<0, 0>>]]
Init == st = S0 /\ prog = <<>>
Next == /\ Len(prog) < MaxDepth
        /\ \E op \in Ops : Enabled(st, op) /\ st' = Apply(st, op) /\ prog' = Append(prog, op)
Spec == Init /\ [][Next]_vars

\* ---- theorems of the heap model (state invariants and action properties)
WF == WellFormed(st)
LastOp == prog'[Len(prog')]
InPlace(o) == o.op \in {"iop", "fiop", "fill", "ffop"}
\* in-place updates change no binding
InPlaceKeepsStructure == [][InPlace(LastOp) => st'.cont = st.cont /\ st'.fobj = st.fobj]_vars
\* ... and are invisible to containers that share no array with the updated one
Independence == [][InPlace(LastOp) =>
                     \A d \in DOMAIN st.cont : Reach(st, d) \cap Reach(st, LastOp.c) = {} => Content(st', d) = Content(st, d)]_vars
\* ... and visible to every container that holds the updated array
Visibility == [][InPlace(LastOp) =>
                   \A d \in DOMAIN st.cont : \A k \in Slots(st, d) : \A j \in Slots(st, LastOp.c) :
                      Arr(st, d, k) = Arr(st, LastOp.c, j) => st'.heap[Arr(st', d, k)] = st'.heap[Arr(st', LastOp.c, j)]]_vars
\* a copy shares nothing with anybody else and has the content of its source
CopyIsFresh == [][LastOp.op = "copy" =>
                    /\ \A d \in DOMAIN st'.cont \ {LastOp.t} : Reach(st', d) \cap Reach(st', LastOp.t) = {}
                    /\ Content(st', LastOp.t) = Content(st, LastOp.a)
                    /\ \A d \in DOMAIN st.cont \ {LastOp.t} : Content(st', d) = Content(st, d)]_vars
\* a + w leaves a (and everybody else) untouched
PlusIsPure == [][LastOp.op = "plus" => \A d \in DOMAIN st.cont \ {LastOp.t} : Content(st', d) = Content(st, d)]_vars
\* after a.link(b) the fields of a ARE the arrays of b, and no content changed -- provided a and b hold different field objects
\* (found by TLC at depth 4: with c = a & b and a' = b & a, c.link(a') re-binds pair by pair and a later pair reads an object an
\* earlier pair has already re-bound, so c does not end up as a pairwise alias of a')
LinkAliases == [][LastOp.op = "link" =>
                    /\ st'.heap = st.heap
                    /\ (IsInjective(st.cont[LastOp.a]) /\ ToSet(st.cont[LastOp.a]) \cap ToSet(st.cont[LastOp.b]) = {})
                          => \A k \in Slots(st, LastOp.a) : Arr(st', LastOp.a, k) = Arr(st, LastOp.b, k)]_vars
\* a & b holds the operands' field objects, in order
JoinShares == [][LastOp.op = "join" => st'.cont[LastOp.t] = st.cont[LastOp.a] \o st.cont[LastOp.b] /\ st'.heap = st.heap /\ st'.fobj = st.fobj]_vars
\* global numbering: on a container without internal sharing, c += w adds w[offset_k + i] to entry i of field k
GlobalNumbering == [][(LastOp.op = "iop" /\ LastOp.kind = "add" /\ IsInjective([k \in Slots(st, LastOp.c) |-> Arr(st, LastOp.c, k)])) =>
                        \A k \in Slots(st, LastOp.c) : \A i \in 1..Size(st, LastOp.c, k) :
                           st'.heap[Arr(st, LastOp.c, k)][i] = st.heap[Arr(st, LastOp.c, k)][i] + Unit * LastOp.v * (Offset(st, LastOp.c, k) + i)]_vars

\* ---- export
OpStr(o) == CASE o.op = "iop" -> "iop:" \o o.c \o ":" \o o.kind \o ":" \o ToString(o.v)
              [] o.op = "fiop" -> "fiop:" \o o.c \o ":" \o ToString(o.k) \o ":" \o o.kind \o ":" \o ToString(o.v)
              [] o.op = "fill" -> "fill:" \o o.c \o ":" \o ToString(o.k) \o ":" \o ToString(o.v)
              [] o.op = "ffop" -> "ffop:" \o o.c \o ":" \o ToString(o.k) \o ":" \o o.d \o ":" \o ToString(o.j) \o ":" \o o.kind
              [] o.op = "link" -> "link:" \o o.a \o ":" \o o.b
              [] o.op = "copy" -> "copy:" \o o.a \o ":" \o o.t
              [] o.op = "plus" -> "plus:" \o o.a \o ":" \o o.kind \o ":" \o ToString(o.v) \o ":" \o o.t
              [] o.op = "join" -> "join:" \o o.a \o ":" \o o.b \o ":" \o o.t
RECURSIVE JoinStr(_)
JoinStr(sq) == IF sq = <<>> THEN "" ELSE IF Len(sq) = 1 THEN OpStr(sq[1]) ELSE OpStr(sq[1]) \o "," \o JoinStr(Tail(sq))
Dump == prog = <<>> \/ PrintT("PROGRAM|" \o JoinStr(prog))
=============================================================================
