---------------------------- MODULE FixedPoint ----------------------------
(* Overflow-aware fixed-point helpers.  TLC integers are 32-bit and TLC      *)
(* aborts on overflow (it never wraps), so every operator here is either     *)
(* exact or has a stated error bound in units of the last place (ulp).       *)
EXTENDS Integers, Sequences, FiniteSets, FiniteSetsExt, SequencesExt, Functions

Abs(a) == IF a < 0 THEN -a ELSE a
Sgn(a) == IF a < 0 THEN -1 ELSE 1
Max2(a, b) == IF a > b THEN a ELSE b
Min2(a, b) == IF a < b THEN a ELSE b

RECURSIVE IPow(_, _)
IPow(b, e) == IF e = 0 THEN 1 ELSE b * IPow(b, e - 1)

SumSeq(s) == FoldSeq(LAMBDA x, acc : x + acc, 0, s)
SumFun(f) == FoldSet(LAMBDA x, acc : f[x] + acc, 0, DOMAIN f)
SumOver(D, Op(_)) == FoldSet(LAMBDA x, acc : Op(x) + acc, 0, D)
MaxAbsSeq(s) == FoldSeq(LAMBDA x, acc : Max2(Abs(x), acc), 0, s)

\* product of two fixed-point numbers at scale L*L (14-bit limbs for L = 16384);
\* exact up to 3 ulp (three floor divisions); requires |a*b/(L*L)| and the partial
\* products to fit 31 bits (|a|, |b| <= 2^15 * L is always safe for L = 2^14)
MulU(a, b, L) == LET ah == a \div L  al == a % L  bh == b \div L  bl == b % L
                 IN ah * bh + (ah * bl) \div L + (al * bh) \div L + (al * bl) \div (L * L)
MulL(a, b, L) == Sgn(a) * Sgn(b) * MulU(Abs(a), Abs(b), L)

\* integer division rounding to nearest (ties away from zero)
RoundDiv(a, b) == Sgn(a) * Sgn(b) * ((2 * Abs(a) + Abs(b)) \div (2 * Abs(b)))

Within(a, b, tol) == Abs(a - b) <= tol
=============================================================================
