------------------------------- MODULE BagMC -------------------------------
(* Program space of mesh-container operations: the abstract state keeps, per  *)
(* container name, the list of argument meshes it holds (by name) and whether *)
(* its points are merged; TLC enumerates every applicable sequence up to      *)
(* MaxDepth, checks the bookkeeping invariants and exports the programs.      *)
EXTENDS Integers, Sequences, FiniteSets, TLC
CONSTANTS MaxDepth
VARIABLES cont, prog
vars == <<cont, prog>>
Names == {"c", "d"}
Base == {"A", "B", "T"}             \* A, B: quads sharing an edge; T: triangles sharing an edge with A
TypeOf(b) == IF b = "T" THEN "triangle" ELSE "quad"
Init == cont = [x \in {} |-> <<>>] /\ prog = <<>>
Do(op, newcont) == Len(prog) < MaxDepth /\ cont' = newcont /\ prog' = Append(prog, op)
Set(c, v) == [x \in DOMAIN cont \cup {c} |-> IF x = c THEN v ELSE cont[x]]
New == \E c \in Names, a \in Base, b \in Base \cup {"-"}, mg \in BOOLEAN :
          Do("new:" \o c \o ":" \o a \o ":" \o b \o ":" \o (IF mg THEN "1" ELSE "0"), Set(c, IF b = "-" THEN <<a>> ELSE <<a, b>>))
AppendOp == \E c \in DOMAIN cont, a \in Base : Len(cont[c]) < 3 /\ Do("append:" \o c \o ":" \o a, Set(c, Append(cont[c], a)))
Pop == \E c \in DOMAIN cont : \E i \in 0..(Len(cont[c]) - 1) :
          Do("pop:" \o c \o ":" \o ToString(i), Set(c, [n \in 1..(Len(cont[c]) - 1) |-> IF n <= i THEN cont[c][n] ELSE cont[c][n + 1]]))
Merge == \E c \in DOMAIN cont : Len(cont[c]) >= 1 /\ Do("merge:" \o c, cont)
Stack == \E c \in DOMAIN cont : Len(cont[c]) >= 1 /\ (\A n \in 1..Len(cont[c]) : TypeOf(cont[c][n]) = TypeOf(cont[c][1])) /\ Do("stack:" \o c, cont)
Copy == \E c \in DOMAIN cont : \E t \in Names \ {c} : Do("copy:" \o c \o ":" \o t, Set(t, cont[c]))
AsVertex == \E c \in DOMAIN cont : Len(cont[c]) >= 1 /\ Do("asvertex:" \o c, cont)
Next == New \/ AppendOp \/ Pop \/ Merge \/ Stack \/ Copy \/ AsVertex
Spec == Init /\ [][Next]_vars
Bounded == \A c \in DOMAIN cont : Len(cont[c]) <= 3
RECURSIVE Join(_)
Join(sq) == IF Len(sq) = 1 THEN sq[1] ELSE sq[1] \o "," \o Join(Tail(sq))
Dump == prog = <<>> \/ PrintT("PROGRAM|" \o Join(prog))
=============================================================================
