------------------------------- MODULE MeshOps -------------------------------
(* C16 -- mesh generators and transformations preserve geometry and           *)
(* orientation.  Relational, property-level semantics on LATTICE meshes:      *)
(* point coordinates are integers (real coordinate * 8), so signed volumes,   *)
(* centroids, distances and face incidences are exact.                        *)
(*                                                                            *)
(* A mesh m = [type, dim, pts (seq of coordinate tuples), cells (seq of seqs  *)
(* of zero-based point ids)].  Corner nodes come first in every cell (VTK).   *)
(* Exact measures:                                                            *)
(*   line      (1-d)  x1 - x0                                                 *)
(*   triangle  2 A  = cross(b-a, c-a)           quad  2 A = shoelace          *)
(*   tetra     6 V  = det(b-a, c-a, d-a)                                      *)
(*   hexahedron: det J of the trilinear map is a polynomial of degree <= 2 per*)
(*     variable, so Simpson's rule on {-1,0,1}^3 (weights 1,4,1) is exact:    *)
(*     13824 V = sum W det(D),  D = 8 dX/dr (integer at these points);        *)
(*     validity: det(D) > 0 at all 27 points (incl. the 8 corners).           *)
(* Each step of a program (generator or operation) is one record with the     *)
(* parent mesh(es), the operation and the child mesh; the relation of the     *)
(* operation decides which clauses apply.                                     *)
EXTENDS FixedPoint, TLC

Base(t) == CASE t \in {"quad", "quad8", "quad9"} -> "quad"
             [] t \in {"hexahedron", "hexahedron20", "hexahedron27"} -> "hexahedron"
             [] t \in {"triangle", "triangle6"} -> "triangle"
             [] t \in {"tetra", "tetra10"} -> "tetra"
             [] OTHER -> t
NCorner(t) == CASE Base(t) = "line" -> 2 [] Base(t) = "triangle" -> 3 [] Base(t) = "quad" -> 4
                [] Base(t) = "tetra" -> 4 [] Base(t) = "hexahedron" -> 8
P(m, c, a) == m.pts[m.cells[c][a] + 1]                 \* coordinates of local node a (1-based) of cell c
Sub(u, v) == [k \in DOMAIN u |-> u[k] - v[k]]
Cross2(u, v) == u[1] * v[2] - u[2] * v[1]
Det3(u, v, w) == u[1] * (v[2] * w[3] - v[3] * w[2]) - u[2] * (v[1] * w[3] - v[3] * w[1]) + u[3] * (v[1] * w[2] - v[2] * w[1])

\* ---- hexahedron: D = 8 dX/dr at (r,s,t) in {-1,0,1}^3; VTK corner signs
HexSigns == << <<-1, -1, -1>>, <<1, -1, -1>>, <<1, 1, -1>>, <<-1, 1, -1>>, <<-1, -1, 1>>, <<1, -1, 1>>, <<1, 1, 1>>, <<-1, 1, 1>> >>
HexD(m, c, rst, j) ==   \* j-th column: derivative w.r.t. natural coordinate j, as coordinate tuple
  [k \in 1..3 |-> SumOver(1..8, LAMBDA a :
      LET sg == HexSigns[a] IN
      sg[j] * FoldSet(LAMBDA i, acc : (IF i = j THEN 1 ELSE 1 + sg[i] * rst[i]) * acc, 1, 1..3) * P(m, c, a)[k])]
HexDet(m, c, rst) == Det3(HexD(m, c, rst, 1), HexD(m, c, rst, 2), HexD(m, c, rst, 3))
Grid3 == {-1, 0, 1} \X {-1, 0, 1} \X {-1, 0, 1}
SW(x) == IF x = 0 THEN 4 ELSE 1
\* measure in type-specific integer units: Units(type) * (real measure in coordinate units^dim)
Measure(m, c) ==
  CASE Base(m.type) = "line" -> P(m, c, 2)[1] - P(m, c, 1)[1]
    [] Base(m.type) = "triangle" -> Cross2(Sub(P(m, c, 2), P(m, c, 1)), Sub(P(m, c, 3), P(m, c, 1)))
    [] Base(m.type) = "quad" -> SumOver(1..4, LAMBDA a : Cross2(P(m, c, a), P(m, c, (a % 4) + 1)))
    [] Base(m.type) = "tetra" -> Det3(Sub(P(m, c, 2), P(m, c, 1)), Sub(P(m, c, 3), P(m, c, 1)), Sub(P(m, c, 4), P(m, c, 1)))
    [] Base(m.type) = "hexahedron" -> SumOver(Grid3, LAMBDA g : SW(g[1]) * SW(g[2]) * SW(g[3]) * HexDet(m, c, g))
Units(t) == CASE Base(t) = "line" -> 1 [] Base(t) \in {"triangle", "quad"} -> 2 [] Base(t) = "tetra" -> 6 [] Base(t) = "hexahedron" -> 13824
Cells(m) == 1..Len(m.cells)
Total(m) == SumOver(Cells(m), LAMBDA c : Measure(m, c))
Valid(m, c) == IF Base(m.type) = "hexahedron" THEN \A g \in Grid3 : HexDet(m, c, g) > 0
               ELSE IF Base(m.type) = "quad" THEN \A a \in 1..4 : Cross2(Sub(P(m, c, (a % 4) + 1), P(m, c, a)), Sub(P(m, c, ((a + 2) % 4) + 1), P(m, c, a))) > 0
               ELSE Measure(m, c) > 0

\* ---- clauses on one mesh
Oriented(m) == (Base(m.type) = "line" /\ m.dim > 1) \/ \A c \in Cells(m) : Valid(m, c)
PositiveOrientation(r) == Oriented(r.child)
Used(m) == UNION {ToSet(m.cells[c]) : c \in Cells(m)}
NoUnusedPoints(r) == Used(r.child) = 0..(Len(r.child.pts) - 1)
NoDuplicatePoints(r) == \A p, q \in 1..Len(r.child.pts) : p < q => r.child.pts[p] # r.child.pts[q]
\* faces of the corner skeleton (local corner ids, 1-based)
FaceTable(t) == CASE Base(t) = "triangle" -> {{1, 2}, {2, 3}, {3, 1}}
                  [] Base(t) = "quad" -> {{1, 2}, {2, 3}, {3, 4}, {4, 1}}
                  [] Base(t) = "tetra" -> {{1, 2, 3}, {1, 2, 4}, {2, 3, 4}, {1, 3, 4}}
                  [] Base(t) = "hexahedron" -> {{1, 2, 3, 4}, {5, 6, 7, 8}, {1, 2, 6, 5}, {2, 3, 7, 6}, {3, 4, 8, 7}, {4, 1, 5, 8}}
                  [] OTHER -> {}
FaceKey(m, c, F) == {m.pts[m.cells[c][a] + 1] : a \in F}       \* a face as a set of corner COORDINATES
AllFaceKeys(m) == {<<c, F>> : c \in Cells(m), F \in FaceTable(m.type)}
\* conforming tiling: no face (as a coordinate set) belongs to more than two cells
FacesAtMostTwice(r) ==
  LET m == r.child IN
  \A cf \in AllFaceKeys(m) : Cardinality({dg \in AllFaceKeys(m) : FaceKey(m, dg[1], dg[2]) = FaceKey(m, cf[1], cf[2])}) <= 2

\* ---- relations between parent(s) and child; volumes compared by cross-multiplying the type units
ParentTotal(r) == SumOver(1..Len(r.parents), LAMBDA n : Total(r.parents[n]))
RECURSIVE Gcd(_, _)
Gcd(a, b) == IF b = 0 THEN a ELSE Gcd(b, a % b)
UP(r) == Units(r.parents[1].type) \div Gcd(Units(r.parents[1].type), Units(r.child.type))
UC(r) == Units(r.child.type) \div Gcd(Units(r.parents[1].type), Units(r.child.type))
VolumePreserved(r) == Total(r.child) * UP(r) = ParentTotal(r) * UC(r)
\* generator: covers the intended box  (r.args.extent = product of edge lengths in coordinate units^dim)
CoversDomain(r) == Total(r.child) = Units(r.child.type) * r.args.extent
\* expand by thickness z (coordinate units): measure(child) = z * measure(parent)
ExpandVolume(r) == Total(r.child) * UP(r) = r.args.z * ParentTotal(r) * UC(r)
\* revolve a quad section by segments of 90 degrees about axis ax: each segment has volume  int r dA
\* (first moment of the section about the axis); 6 * int r dA = sum_edges cross(p_i, p_i+1) (r_i + r_i+1)
Radial(r, p) == IF r.args.axis = 0 THEN p[2] ELSE p[1]
FirstMoment6(r, m, c) == SumOver(1..4, LAMBDA a : Cross2(P(m, c, a), P(m, c, (a % 4) + 1)) * (Radial(r, P(m, c, a)) + Radial(r, P(m, c, (a % 4) + 1))))
RevolveVolume(r) == Total(r.child) = 2304 * r.args.nseg * SumOver(Cells(r.parents[1]), LAMBDA c : FirstMoment6(r, r.parents[1], c))
\* cell shapes: squared distances between the corners of each cell are preserved (rigid motion, mirror), cell by cell
Dist2(u, v) == SumOver(DOMAIN u, LAMBDA k : (u[k] - v[k]) * (u[k] - v[k]))
Pad(p, d) == [k \in 1..d |-> IF k <= Len(p) THEN p[k] ELSE 0]
\* (as a bag: mirror re-numbers the corners of a cell to keep it positively oriented)
PairDists(m, c, d) == [ij \in {ij \in (1..NCorner(m.type)) \X (1..NCorner(m.type)) : ij[1] < ij[2]} |->
                         Dist2(Pad(P(m, c, ij[1]), d), Pad(P(m, c, ij[2]), d))]
SameBag(f, g) == \A v \in {f[x] : x \in DOMAIN f} \cup {g[x] : x \in DOMAIN g} :
                    Cardinality({x \in DOMAIN f : f[x] = v}) = Cardinality({x \in DOMAIN g : g[x] = v})
CellShapesPreserved(r) ==
  LET a == r.parents[1]  b == r.child  d == IF a.dim > b.dim THEN a.dim ELSE b.dim IN
  /\ Len(a.cells) = Len(b.cells)
  /\ \A c \in Cells(a) : SameBag(PairDists(a, c, d), PairDists(b, c, d))
\* corners of every cell keep their coordinates (midpoint insertion, merging, disconnecting)
CornersUnmoved(r) ==
  LET a == r.parents[1]  b == r.child IN
  /\ Len(a.cells) = Len(b.cells)
  /\ \A c \in Cells(a) : \A i \in 1..NCorner(a.type) : P(a, c, i) = P(b, c, i)
\* double flip / identity-like operations return the same mesh
SameMesh(r) == r.child.pts = r.parents[1].pts /\ r.child.cells = r.parents[1].cells /\ r.child.type = r.parents[1].type
\* single flip: every cell changes orientation, same size
FlipInverts(r) == LET a == r.parents[1]  b == r.child IN
                  Len(a.cells) = Len(b.cells) /\ \A c \in Cells(a) : Measure(b, c) = -Measure(a, c)
\* inserted points of a cell = centroids of its edges / faces / volume (as sets; 2/4/8 * centroid = sum of corners)
EdgeTable(t) == CASE Base(t) = "triangle" -> {{1, 2}, {2, 3}, {3, 1}}
                  [] Base(t) = "quad" -> {{1, 2}, {2, 3}, {3, 4}, {4, 1}}
                  [] Base(t) = "tetra" -> {{1, 2}, {2, 3}, {3, 1}, {1, 4}, {2, 4}, {3, 4}}
                  [] Base(t) = "hexahedron" -> {{1, 2}, {2, 3}, {3, 4}, {4, 1}, {5, 6}, {6, 7}, {7, 8}, {8, 5}, {1, 5}, {2, 6}, {3, 7}, {4, 8}}
                  [] OTHER -> {}
SumPts(m, c, F) == [k \in 1..m.dim |-> SumOver(F, LAMBDA a : P(m, c, a)[k])]
Scaled(p, n) == [k \in DOMAIN p |-> n * p[k]]
ExpectedInserted(r, m, c) ==     \* set of <<multiplier, multiplier * centroid>>
  (IF r.args.edges THEN {<<2, SumPts(m, c, F)>> : F \in EdgeTable(m.type)} ELSE {})
  \cup (IF r.args.faces THEN {<<Cardinality(F), SumPts(m, c, F)>> :
                                 F \in (IF Base(m.type) \in {"quad", "triangle"} THEN {1..NCorner(m.type)} ELSE FaceTable(m.type))} ELSE {})
  \cup (IF r.args.volumes THEN {<<NCorner(m.type), SumPts(m, c, 1..NCorner(m.type))>>} ELSE {})
MidpointsAreCentroids(r) ==
  LET m == r.child  nc == NCorner(m.type) IN
  \A c \in Cells(m) :
     /\ Len(m.cells[c]) = nc + Cardinality(ExpectedInserted(r, m, c))
     /\ \A e \in ExpectedInserted(r, m, c) : \E a \in (nc + 1)..Len(m.cells[c]) : Scaled(P(m, c, a), e[1]) = e[2]
\* order-zero conversion: one point per cell, the centroid of its corners (the whole record is logged on a finer lattice on which
\* the centroids are integers)
CellCentroids(r) == LET a == r.parents[1]  b == r.child IN
                    /\ Len(b.cells) = Len(a.cells)
                    /\ \A c \in Cells(a) : Len(b.cells[c]) = 1 /\ Scaled(b.pts[b.cells[c][1] + 1], NCorner(a.type)) = SumPts(a, c, 1..NCorner(a.type))
\* fill_between two polylines (parents 1 and 2, same numbers of points, straight connecting lines): the quads tile the polygon
\* bounded by the first polyline (forwards) and the second (backwards); 2 A by the shoelace formula
Poly(r) == LET a == r.parents[1].pts  b == r.parents[2].pts IN a \o [n \in 1..Len(b) |-> b[Len(b) + 1 - n]]
FillArea(r) == LET p == Poly(r)  n == Len(p) IN
               Total(r.child) = Abs(SumOver(1..n, LAMBDA i : Cross2(p[i], p[(i % n) + 1])))     \* (either sense of the polylines)
\* duplicated cells removed: the same cells as the parent (as sets of corner coordinates), each once
CellKeys(m) == {{P(m, c, a) : a \in 1..NCorner(m.type)} : c \in Cells(m)}
CellSetPreserved(r) == Len(r.child.cells) = Len(r.parents[1].cells) /\ CellKeys(r.child) = CellKeys(r.parents[1])
\* ... and, for the quadratic cell types, each inserted point sits at ITS place in the connectivity (VTK order: edge mid-points in
\* edge order, then the face mid-points x-min, x-max, y-min, y-max, z-min, z-max, then the cell mid-point)
HexEdges == << {1, 2}, {2, 3}, {3, 4}, {4, 1}, {5, 6}, {6, 7}, {7, 8}, {8, 5}, {1, 5}, {2, 6}, {3, 7}, {4, 8} >>
Placed(t) == CASE t = "quad8" -> << {1, 2}, {2, 3}, {3, 4}, {4, 1} >>
               [] t = "quad9" -> << {1, 2}, {2, 3}, {3, 4}, {4, 1}, {1, 2, 3, 4} >>
               [] t = "triangle6" -> << {1, 2}, {2, 3}, {3, 1} >>
               [] t = "tetra10" -> << {1, 2}, {2, 3}, {3, 1}, {1, 4}, {2, 4}, {3, 4} >>
               [] t = "hexahedron20" -> HexEdges
               [] t = "hexahedron27" -> HexEdges \o << {1, 5, 8, 4}, {2, 3, 7, 6}, {1, 2, 6, 5}, {3, 4, 8, 7}, {1, 2, 3, 4}, {5, 6, 7, 8}, 1..8 >>
               [] OTHER -> << >>
MidpointsInPlace(r) ==
  LET m == r.child  nc == NCorner(m.type)  tab == Placed(m.type) IN
  \A c \in Cells(m) : \A k \in 1..Len(tab) :
     nc + k <= Len(m.cells[c]) /\ Scaled(P(m, c, nc + k), Cardinality(tab[k])) = SumPts(m, c, tab[k])
\* disconnect: every cell owns its points
CellsOwnPoints(r) == LET m == r.child IN
                     /\ Len(m.pts) = SumOver(Cells(m), LAMBDA c : Len(m.cells[c]))
                     /\ \A c, e \in Cells(m) : c # e => ToSet(m.cells[c]) \cap ToSet(m.cells[e]) = {}

\* ---- which clauses are judged: a clause about the child presupposes the same fact about the parent(s)
NoDup(m) == \A p, q \in 1..Len(m.pts) : p < q => m.pts[p] # m.pts[q]
NoUnused(m) == Used(m) = 0..(Len(m.pts) - 1)
GO(r) == \A n \in 1..Len(r.parents) : Oriented(r.parents[n])
GD(r) == \A n \in 1..Len(r.parents) : NoDup(r.parents[n])
GU(r) == \A n \in 1..Len(r.parents) : NoUnused(r.parents[n])
If(cond, S) == IF cond THEN S ELSE {}
\* a section can be revolved if it lies strictly on the positive side of the axis
OffAxis(r) == \A p \in 1..Len(r.parents[1].pts) : Radial(r, r.parents[1].pts[p]) > 0
Clauses(r) ==
  CASE r.op = "generate" -> {"PositiveOrientation", "NoUnusedPoints", "NoDuplicatePoints", "CoversDomain", "FacesAtMostTwice"}
    [] r.op \in {"rotate", "translate", "mirror"} -> {"CellShapesPreserved", "VolumePreserved"} \cup If(GO(r), {"PositiveOrientation"})
                                                     \cup If(GU(r), {"NoUnusedPoints"}) \cup If(GD(r), {"NoDuplicatePoints"})
    [] r.op = "flip2" -> {"SameMesh"}
    [] r.op = "flip1" -> {"FlipInverts"}
    \* (cells collapsed onto a revolution axis are not valid cells: their sub-cells / mid-points coincide, tiling and centroid-set
    \*  clauses presuppose a valid parent)
    [] r.op = "triangulate" -> {"VolumePreserved"} \cup If(GO(r), {"PositiveOrientation", "FacesAtMostTwice"}) \cup If(GU(r), {"NoUnusedPoints"})
    [] r.op = "expand" -> {"ExpandVolume"} \cup If(GO(r), {"PositiveOrientation", "FacesAtMostTwice"}) \cup If(GU(r), {"NoUnusedPoints"})
                          \cup If(GD(r), {"NoDuplicatePoints"})
    [] r.op = "revolve" -> If(OffAxis(r) /\ GO(r), {"PositiveOrientation", "RevolveVolume", "FacesAtMostTwice"}
                                                   \cup If(GU(r), {"NoUnusedPoints"}) \cup If(GD(r), {"NoDuplicatePoints"}))
    [] r.op = "midpoints" -> {"CornersUnmoved", "VolumePreserved"} \cup If(GO(r), {"PositiveOrientation", "MidpointsAreCentroids"})
                             \cup If(Placed(r.child.type) # << >>, {"MidpointsInPlace"})
                             \cup If(GU(r), {"NoUnusedPoints"})
    [] r.op \in {"concatenate", "stack"} -> {"VolumePreserved"} \cup If(GO(r), {"PositiveOrientation"})
    [] r.op = "disconnect" -> {"CornersUnmoved", "CellsOwnPoints", "VolumePreserved"} \cup If(GO(r), {"PositiveOrientation"})
    [] r.op = "merge" -> {"CornersUnmoved", "NoDuplicatePoints", "VolumePreserved"} \cup If(GO(r), {"PositiveOrientation"})
                         \cup If(GU(r), {"NoUnusedPoints"})
    [] r.op = "centroids" -> {"CellCentroids"}
    [] r.op = "fillbetween" -> {"FillArea", "PositiveOrientation", "NoUnusedPoints", "FacesAtMostTwice"} \cup If(GD(r), {"NoDuplicatePoints"})
    [] r.op = "dupcells" -> {"CellSetPreserved", "VolumePreserved"} \cup If(GO(r), {"PositiveOrientation"}) \cup If(GD(r), {"NoDuplicatePoints"})
                            \cup If(GU(r), {"NoUnusedPoints"})
    [] r.op = "offlattice" -> {"OnLattice"}     \* a lattice operation produced non-lattice coordinates
Holds(c, r) ==
  CASE c = "PositiveOrientation" -> PositiveOrientation(r) [] c = "NoUnusedPoints" -> NoUnusedPoints(r)
    [] c = "NoDuplicatePoints" -> NoDuplicatePoints(r) [] c = "CoversDomain" -> CoversDomain(r)
    [] c = "FacesAtMostTwice" -> FacesAtMostTwice(r) [] c = "CellShapesPreserved" -> CellShapesPreserved(r)
    [] c = "VolumePreserved" -> VolumePreserved(r) [] c = "SameMesh" -> SameMesh(r) [] c = "FlipInverts" -> FlipInverts(r)
    [] c = "ExpandVolume" -> ExpandVolume(r) [] c = "RevolveVolume" -> RevolveVolume(r)
    [] c = "CornersUnmoved" -> CornersUnmoved(r) [] c = "MidpointsAreCentroids" -> MidpointsAreCentroids(r)
    [] c = "CellsOwnPoints" -> CellsOwnPoints(r) [] c = "CellCentroids" -> CellCentroids(r) [] c = "MidpointsInPlace" -> MidpointsInPlace(r)
    [] c = "FillArea" -> FillArea(r) [] c = "CellSetPreserved" -> CellSetPreserved(r)
    [] c = "OnLattice" -> FALSE
Applicable(r) == Clauses(r)
Failing(r) == {c \in Clauses(r) : ~Holds(c, r)}
=============================================================================
