------------------------------ MODULE SolverMC ------------------------------
(* Exhaustive model of the solver stack: closes the parameters of Solver.tla  *)
(* nondeterministically -- fresh iterate versions, the outcome oracle of      *)
(* check(), job / step configurations -- and (constant Mut) replaces single   *)
(* actions by faulty variants that TLC must reject (the invariants have teeth).*)
EXTENDS Solver

CONSTANTS Items, Stateful, Ramped, First,    \* item universe, items with state variables, ramped items, items[0]
          NSteps, NSub, MaxIter, MaxRuns,    \* bounds
          Mut                                \* "none" or the name of a seeded fault

UnknownMC == -1

VARIABLES nextver,   \* next fresh iterate version
          nruns,     \* number of jobs / standalone runs started
          script     \* history: the oracle choices made (used to export behaviours)
allvars == <<vars, nextver, nruns, script>>

MCInit ==
  /\ pc = "Idle" /\ mode = "none" /\ job = NoJob /\ scfg = NoStep
  /\ j = 0 /\ i = 0 /\ k = 0 /\ maxiter = 0
  /\ x = 0 /\ fieldver = [it \in Items |-> 0] /\ x0ver = 0
  /\ kin = [it \in Items |-> 0] /\ trial = [it \in Items |-> 0]
  /\ committed = [it \in Items |-> 0] /\ committed0 = [it \in Items |-> 0]
  /\ pending = {} /\ ramped = {}
  /\ results = <<>> /\ cbs = <<>> /\ frames = <<>> /\ time = 0
  /\ returned = {} /\ raised = "none" /\ lastcheck = "none"
  /\ nextver = 1 /\ nruns = 0 /\ script = <<>>

StepCfg(nsub, ux) ==
  [items |-> Items, first |-> First, stateful |-> Stateful, extra |-> {},
   ramp |-> [it \in Ramped |-> [n \in 1..nsub |-> n]], nsub |-> nsub, usex0 |-> ux, x0id |-> x0ver]

Keep == UNCHANGED <<nextver, nruns, script>>

MCJobBegin == /\ nruns < MaxRuns
              /\ \E ns \in 0..NSteps, ux \in BOOLEAN, f \in BOOLEAN :
                    JobBegin([kind |-> "job", nsteps |-> ns, usex0 |-> ux, file |-> f], x0ver)
              /\ nruns' = nruns + 1 /\ UNCHANGED nextver
              /\ script' = Append(script, "job:" \o ToString(job'.nsteps) \o ":" \o (IF job'.usex0 THEN "T" ELSE "F")
                                             \o ":" \o (IF job'.file THEN "T" ELSE "F"))
MCStepBegin == /\ \E nsub \in 1..NSub : StepBegin(StepCfg(nsub, FALSE))
               /\ (mode = "none" => nruns < MaxRuns)
               /\ nruns' = (IF mode = "none" THEN nruns + 1 ELSE nruns) /\ UNCHANGED nextver
               /\ script' = Append(script, (IF mode = "none" THEN "solostep:" ELSE "step:") \o ToString(scfg'.nsub))
MCRamp == (\E it \in Ramped : pc = "Ramp" /\ it \in DOMAIN scfg.ramp /\ RampUpdate(it, scfg.ramp[it][i])) /\ Keep
MCNewtonEnter == NewtonEnter(MaxIter) /\ Keep
MCStandalone == /\ nruns < MaxRuns
                /\ NewtonStandalone(StepCfg(0, FALSE), MaxIter)
                /\ nruns' = nruns + 1 /\ script' = Append(script, "newton") /\ UNCHANGED nextver
TrialAt(v) == [it \in Stateful |-> v]
MCResid0 == /\ pc = "Resid0"
            /\ Resid0(StartIterate, TrialAt(StartIterate))
            /\ Keep
MCUpdate == Update(nextver) /\ nextver' = nextver + 1 /\ UNCHANGED <<nruns, script>>
MCResid == Resid(TrialAt(x)) /\ Keep
MCCommit == (\E it \in Items : it \notin pending /\ Commit(it, it \in Stateful)) /\ Keep
MCCheck == \E o \in {"conv", "cont", "nan"} : Check(o) /\ script' = Append(script, o) /\ UNCHANGED <<nextver, nruns>>

\* ---------------------------------------------------------------- seeded faults
\* check() commits although the iteration did not converge
BadCheckCommits ==
  /\ pc = "Check" /\ pending = Items
  /\ \E o \in {"cont", "nan"} :
        /\ lastcheck' = o
        /\ IF o = "nan" \/ k = maxiter THEN pc' = "Raise" /\ raised' = (IF o = "nan" THEN "nan" ELSE "maxiter")
                                       ELSE pc' = "Jac" /\ UNCHANGED raised
        /\ script' = Append(script, o)
  /\ UNCHANGED <<mode, job, scfg, j, i, k, maxiter, x, fieldver, x0ver, kin, trial, committed,
                 committed0, pending, ramped, results, cbs, frames, time, returned, nextver, nruns>>
\* returns the last iterate instead of raising when maxiter is reached
BadReturnAtMaxiter ==
  /\ pc = "Check" /\ pending = {} /\ k = maxiter
  /\ lastcheck' = "cont" /\ pc' = "Return" /\ script' = Append(script, "cont")
  /\ UNCHANGED <<mode, job, scfg, j, i, k, maxiter, x, fieldver, x0ver, kin, trial, committed,
                 committed0, pending, ramped, results, cbs, frames, time, returned, raised, nextver, nruns>>
\* Job forgets to link x0 to the converged substep
BadNoLink ==
  /\ pc = "Callback"
  /\ cbs' = Append(cbs, [step |-> j, sub |-> i, x |-> x])
  /\ IF job.file THEN pc' = "Frame" /\ UNCHANGED <<i, ramped, time>> ELSE time' = time + 1 /\ Advance
  /\ UNCHANGED <<mode, job, scfg, j, k, maxiter, x, fieldver, x0ver, kin, trial, committed, committed0,
                 pending, results, frames, returned, raised, lastcheck, nextver, nruns, script>>
\* the writer skips a frame but still advances the time
BadFrameSkip ==
  /\ pc = "Frame" /\ time = 1
  /\ time' = time + 1 /\ Advance
  /\ UNCHANGED <<mode, job, scfg, j, k, maxiter, x, fieldver, x0ver, kin, trial, committed, committed0,
                 pending, results, cbs, frames, returned, raised, lastcheck, nextver, nruns, script>>
\* Step.generate swallows the failure and goes on with the next substep
BadContinueAfterFailure ==
  /\ pc = "Raise" /\ mode = "job"
  /\ Advance
  /\ UNCHANGED <<mode, job, scfg, j, k, maxiter, x, fieldver, x0ver, kin, trial, committed, committed0,
                 pending, results, cbs, frames, time, returned, raised, lastcheck, nextver, nruns, script>>
\* the tangent is assembled before the items were re-linked (stale kinematics)
BadStaleJac ==
  /\ pc = "Resid" /\ pc' = "Check" /\ pending' = {}
  /\ trial' = UpdF(trial, TrialAt(x))
  /\ UNCHANGED <<mode, job, scfg, j, i, k, maxiter, x, fieldver, x0ver, kin, committed, committed0,
                 ramped, results, cbs, frames, time, returned, raised, lastcheck, nextver, nruns, script>>

Done == pc = "Idle" /\ mode = "none" /\ nruns = MaxRuns /\ UNCHANGED allvars

MCNext ==
  \/ MCJobBegin \/ MCStepBegin \/ MCRamp \/ MCNewtonEnter \/ MCStandalone
  \/ MCResid0 \/ (Jac /\ Keep) \/ (Solve /\ Keep) \/ MCUpdate
  \/ (IF Mut = "stale_jac" THEN BadStaleJac ELSE MCResid)
  \/ MCCommit \/ MCCheck
  \/ (Return /\ Keep) \/ (Raise /\ Keep)
  \/ (IF Mut = "no_x0_link" THEN BadNoLink ELSE Callback /\ Keep)
  \/ (Frame /\ Keep) \/ (StepEnd /\ Keep) \/ (JobEnd /\ Keep) \/ (JobRaise /\ Keep)
  \/ (Mut = "commit_on_fail" /\ BadCheckCommits)
  \/ (Mut = "return_at_maxiter" /\ BadReturnAtMaxiter)
  \/ (Mut = "frame_skip" /\ BadFrameSkip)
  \/ (Mut = "continue_after_failure" /\ BadContinueAfterFailure)
  \/ Done

MCSpec == MCInit /\ [][MCNext]_allvars /\ WF_allvars(MCNext)

\* the stale-kinematics fault blocks Jac (kin # x): a stuck state that is not Done
NoStuckState == (pc = "Idle" /\ mode = "none" /\ nruns = MaxRuns) \/ ENABLED (MCNext /\ ~Done)
Terminates == <>[](pc = "Idle" /\ mode = "none" /\ nruns = MaxRuns)
TypeOK == /\ k \in 0..MaxIter /\ x \in 0..nextver /\ raised \in {"none", "nan", "maxiter"}
          /\ (job.kind = "job" => time = Len(cbs) - (IF pc = "Frame" THEN 1 ELSE 0)) /\ pending \subseteq Items

\* export: every terminal state prints its behaviour (configuration + oracle script + expected logs)
RECURSIVE Join(_, _)
Join(sq, sep) == IF sq = <<>> THEN "" ELSE IF Len(sq) = 1 THEN sq[1] ELSE sq[1] \o sep \o Join(Tail(sq), sep)
Dump == (pc = "Idle" /\ mode = "none" /\ nruns = MaxRuns) =>
          PrintT("BEHAVIOUR|" \o Join(script, ",") \o "|" \o ToString(Len(results)) \o "|" \o raised \o "|"
                 \o Join([n \in 1..Len(results) |-> ToString(results[n].iters)], ",") \o "|"
                 \o ToString(Len(cbs)) \o "|" \o ToString(Len(frames)))
=============================================================================
