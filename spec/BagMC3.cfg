SPECIFICATION Spec
CONSTANT MaxDepth = 3
INVARIANTS Bounded Dump
CHECK_DEADLOCK FALSE
