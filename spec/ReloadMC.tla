------------------------------ MODULE ReloadMC ------------------------------
(* Program space of Reload.tla (every sequence of create / update / reload /  *)
(* copy up to MaxDepth on one mesh and the region names r1, r2), theorems,    *)
(* and export of every program for execution on real Mesh / Region objects.   *)
EXTENDS Reload
CONSTANTS MaxDepth
VARIABLES st, prog
vars == <<st, prog>>
Regs == {"r1", "r2"}
TF == {"T", "F"}
Ops == [op : {"create"}, r : Regs, grad : TF, hess : TF, uniform : TF]
       \cup [op : {"reload"}, r : Regs, grad : Arg, hess : Arg, uniform : {None, "T"}]
       \cup [op : {"update"}, cb : {None} \cup Regs]
       \cup {o \in [op : {"copy"}, r : Regs, t : Regs, grad : {None, "T"}, hess : {None, "T"}, uniform : {None}] : o.r # o.t}
Init == st = [pv |-> 1, reg |-> [x \in {} |-> 0]] /\ prog = <<>>
Next == Len(prog) < MaxDepth /\ \E op \in Ops : Enabled(st, op) /\ st' = Apply(st, op) /\ prog' = Append(prog, op)
Spec == Init /\ [][Next]_vars
LastOp == prog'[Len(prog')]
SaneInv == Sane(st)
\* a reload (direct, as callback, or by copy) leaves the reloaded region fresh
ReloadMakesFresh == [][(LastOp.op = "reload" => Fresh(st', LastOp.r))
                       /\ (LastOp.op = "update" /\ LastOp.cb # None => Live(st', LastOp.cb))
                       /\ (LastOp.op = "copy" => Fresh(st', LastOp.t))
                       /\ (LastOp.op = "create" => Fresh(st', LastOp.r))]_vars
\* a bare update leaves every gradient-evaluating region stale (the documented warning) and changes no region
BareUpdateStales == [][(LastOp.op = "update" /\ LastOp.cb = None) =>
                         st'.reg = st.reg /\ \A r \in DOMAIN st.reg : st.reg[r].grad /\ st.reg[r].own = 0 => ~Fresh(st', r)]_vars
\* operations on one region never touch another
Isolation == [][\A r \in DOMAIN st.reg : (LastOp.op \in {"reload", "create"} /\ LastOp.r # r) \/ (LastOp.op = "copy" /\ LastOp.t # r)
                                         \/ (LastOp.op = "update" /\ LastOp.cb # r) => st'.reg[r] = st.reg[r]]_vars
\* reload() without the uniform argument always ends in general (non-compressed) storage
UniformIsNotSticky == [][LastOp.op = "reload" /\ LastOp.uniform = None => ~st'.reg[LastOp.r].uniform]_vars
A2S(a) == a
OpStr(o) == CASE o.op = "create" -> "create:" \o o.r \o ":" \o o.grad \o ":" \o o.hess \o ":" \o o.uniform
              [] o.op = "reload" -> "reload:" \o o.r \o ":" \o o.grad \o ":" \o o.hess \o ":" \o o.uniform
              [] o.op = "update" -> "update:" \o o.cb
              [] o.op = "copy" -> "copy:" \o o.r \o ":" \o o.t \o ":" \o o.grad \o ":" \o o.hess \o ":" \o o.uniform
RECURSIVE JoinStr(_)
JoinStr(sq) == IF Len(sq) = 1 THEN OpStr(sq[1]) ELSE OpStr(sq[1]) \o "," \o JoinStr(Tail(sq))
Dump == prog = <<>> \/ PrintT("PROGRAM|" \o JoinStr(prog))
=============================================================================
