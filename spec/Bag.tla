-------------------------------- MODULE Bag --------------------------------
(* C16 / C20 (mesh container part) -- a MeshContainer keeps a list of meshes  *)
(* over ONE point array: appending a mesh stacks its points behind the        *)
(* existing ones and shifts its cells; merging duplicate points re-indexes    *)
(* every mesh; popping, stacking, copying and the vertex mesh read the list.  *)
(* Relational semantics on observed heaps (lattice coordinates, exact):       *)
(*                                                                            *)
(*   obs.arrays : array id -> sequence of coordinate tuples                   *)
(*   obs.cont[c] : [points : array id, meshes : Seq([pts, cells, type])]      *)
(*                                                                            *)
(* What a user relies on is stated on the CELLS AS COORDINATES (a cell = the  *)
(* tuple of the coordinates of its points): no container operation moves a    *)
(* corner of a cell that is already in the container.                         *)
EXTENDS Integers, Sequences, FiniteSets, FiniteSetsExt, SequencesExt, Functions, TLC

PairFun(sq) == [x \in {p[1] : p \in ToSet(sq)} |-> (CHOOSE p \in ToSet(sq) : p[1] = x)[2]]
Arr(o) == PairFun(o.arrays)
\* a mesh as the sequence of its cells, each the sequence of the coordinates of its points
Coords(o, m) == [n \in 1..Len(m.cells) |-> [a \in 1..Len(m.cells[n]) |-> Arr(o)[m.pts][m.cells[n][a] + 1]]]
Meshes(o, c) == o.cont[c].meshes
Has(o, c) == c \in DOMAIN o.cont

\* ---- clauses on the post-state alone
\* every mesh of a container refers to the container's point array, and all cell indices are inside it
SharedPoints(o) == \A c \in DOMAIN o.cont : \A n \in 1..Len(Meshes(o, c)) : Meshes(o, c)[n].pts = o.cont[c].points
IndicesValid(o) == \A c \in DOMAIN o.cont : \A n \in 1..Len(Meshes(o, c)) :
                      \A k \in 1..Len(Meshes(o, c)[n].cells) : \A a \in 1..Len(Meshes(o, c)[n].cells[k]) :
                         Meshes(o, c)[n].cells[k][a] \in 0..(Len(Arr(o)[Meshes(o, c)[n].pts]) - 1)
NoDuplicatePoints(o, c) == IsInjective(Arr(o)[o.cont[c].points])

\* ---- relations between pre- and post-state
SameMeshGeometry(o1, m1, o2, m2) == m1.type = m2.type /\ Coords(o1, m1) = Coords(o2, m2)
\* the meshes i..j of container c keep type and cell coordinates (positions shifted by d)
KeepRange(pre, post, c, lo, hi, d) == \A n \in lo..hi : SameMeshGeometry(pre, Meshes(pre, c)[n], post, Meshes(post, c)[n + d])
Untouched(pre, post, c) == Has(post, c) /\ Len(Meshes(post, c)) = Len(Meshes(pre, c)) /\ KeepRange(pre, post, c, 1, Len(Meshes(pre, c)), 0)
OthersUntouched(pre, post, c) == \A x \in DOMAIN pre.cont \ {c} : Untouched(pre, post, x)
\* concatenation of the cells of all meshes, as coordinates
RECURSIVE Cat(_, _, _)
Cat(o, ms, n) == IF n > Len(ms) THEN <<>> ELSE Coords(o, ms[n]) \o Cat(o, ms, n + 1)
=============================================================================
