------------------------------- MODULE Reload -------------------------------
(* C06 (reload part) -- cache coherence between a mesh and the regions built  *)
(* on it.  A region caches arrays derived from the mesh points (dXdr, drdX,   *)
(* dV, dhdX and, with hess=True, d2hdXdX).  Mesh.update(points) re-binds the  *)
(* points; the derived arrays are refreshed only by Region.reload (directly,  *)
(* as the update's callback, or through Region.copy).  The model tracks the   *)
(* VERSION of the points each cached array was computed from.                 *)
(*                                                                            *)
(*   pv                               current points version of THE mesh m0   *)
(*   reg[r] : [grad, hess, uniform    evaluation flags                        *)
(*             own                    0: the region holds m0 itself;          *)
(*                                    v > 0: it holds a private deep copy of  *)
(*                                    the mesh, frozen at points version v    *)
(*             geo                    points version behind dV / dhdX (0: none)*)
(*             hes]                   points version behind d2hdXdX (0: none) *)
(*                                                                            *)
(* As in the code: reload() stores each given flag, resets `uniform` to False *)
(* unless it is passed, and recomputes geometry only when the gradient flag   *)
(* is on (the second derivatives only when both flags are on); arrays of a    *)
(* switched-off evaluation stay as they were.                                 *)
EXTENDS Integers, Sequences, FiniteSets, TLC

None == "none"
Arg == {None, "T", "F"}
B(a, old) == IF a = None THEN old ELSE (a = "T")

\* ---- pure step functions on states s = [pv, reg]
MeshVer(s, r) == IF s.reg[r].own = 0 THEN s.pv ELSE s.reg[r].own
Create(s, r, grad, hess, uniform) ==
  [s EXCEPT !.reg = [x \in DOMAIN s.reg \cup {r} |->
      IF x = r THEN [grad |-> grad, hess |-> hess, uniform |-> uniform, own |-> 0,
                     geo |-> IF grad THEN s.pv ELSE 0, hes |-> IF grad /\ hess THEN s.pv ELSE 0]
      ELSE s.reg[x]]]
\* reload of a region record g whose mesh has points version pv
ReloadReg(g, pv, grad, hess, uniform) ==
  LET ng == B(grad, g.grad)  nh == B(hess, g.hess) IN
  [g EXCEPT !.grad = ng, !.hess = nh, !.uniform = (uniform = "T"),
            !.geo = IF ng THEN pv ELSE g.geo,
            !.hes = IF ng /\ nh THEN pv ELSE g.hes]
Reload(s, r, grad, hess, uniform) == [s EXCEPT !.reg[r] = ReloadReg(s.reg[r], MeshVer(s, r), grad, hess, uniform)]
\* m0.update(points=new [, callback=r.reload]) : the callback receives m0, so r holds m0 afterwards
Update(s, cb) == LET t == [s EXCEPT !.pv = s.pv + 1] IN
                 IF cb = None THEN t ELSE Reload([t EXCEPT !.reg[cb].own = 0], cb, None, None, None)
\* t = r.copy(grad=, hess=, uniform=): a deep copy (with a private copy of r's mesh), reloaded
CopyReg(s, r, t, grad, hess, uniform) ==
  [s EXCEPT !.reg = [x \in DOMAIN s.reg \cup {t} |->
      IF x = t THEN ReloadReg([s.reg[r] EXCEPT !.own = MeshVer(s, r)], MeshVer(s, r), grad, hess, uniform) ELSE s.reg[x]]]

Apply(s, op) ==
  CASE op.op = "create" -> Create(s, op.r, op.grad = "T", op.hess = "T", op.uniform = "T")
    [] op.op = "reload" -> Reload(s, op.r, op.grad, op.hess, op.uniform)
    [] op.op = "update" -> Update(s, op.cb)
    [] op.op = "copy" -> CopyReg(s, op.r, op.t, op.grad, op.hess, op.uniform)
Enabled(s, op) ==
  CASE op.op = "create" -> TRUE
    [] op.op = "reload" -> op.r \in DOMAIN s.reg
    [] op.op = "update" -> op.cb = None \/ op.cb \in DOMAIN s.reg
    [] op.op = "copy" -> op.r \in DOMAIN s.reg /\ op.r # op.t

\* ---- what a user relies on
\* fresh with respect to the mesh the region holds
Fresh(s, r) == (s.reg[r].grad => s.reg[r].geo = MeshVer(s, r)) /\ ((s.reg[r].grad /\ s.reg[r].hess) => s.reg[r].hes = MeshVer(s, r))
\* ... and with respect to the live mesh m0
Live(s, r) == s.reg[r].own = 0 /\ Fresh(s, r)
\* never from the future
Sane(s) == \A r \in DOMAIN s.reg : s.reg[r].geo <= s.pv /\ s.reg[r].hes <= s.pv /\ s.reg[r].own <= s.pv
=============================================================================
