------------------------------- MODULE Material -------------------------------
(* C03 / C11 / C12 -- laws of constitutive models on spec-issued lattice      *)
(* inputs  F = 1 + Z/8  (Z integer, det F in [0.6, 1.7], distinct principal   *)
(* stretches), rational rotations Q = N/q, dyadic material parameters.        *)
(*                                                                            *)
(* Derivative laws (C03) use the 7-point central stencil with step h = 2^-6   *)
(* in integer form  45 D1 - 9 D2 + D3 = 15 R  where D_s are symmetric         *)
(* differences of the differentiated quantity (scale 2^22) and R the claimed  *)
(* derivative contracted with the probe direction (scale 2^18):               *)
(*   StressIsDW         differences of the energy W   vs  P : D               *)
(*   ElastIsDP          differences of P (fixed state variables) vs A : D     *)
(*   MixedBlocks        differences of each gradient entry w.r.t. each        *)
(*                      variable of a mixed (u, p, J) formulation vs the      *)
(*                      returned block (None = 0)                             *)
(*   AlgorithmicTangent the same for history-dependent stress updates         *)
(* Frame-indifference / balance laws (C11), agreement of independent          *)
(* implementations and documented initial moduli (C12) are linear laws with   *)
(* exact integer coefficients on arrays logged at 2^20.                       *)
EXTENDS FixedPoint, TLC

S == 1048576
TolD(v) == 96 + Abs(v) \div 4096
Stencil(r) == \A n \in 1..Len(r.rhs) :
                 Abs(45 * r.D1[n] - 9 * r.D2[n] + r.D3[n] - 15 * r.rhs[n]) <= r.tolscale * TolD(15 * r.rhs[n])

\* tensors per point: P[(p-1)*9 + 3(i-1) + j]
T2(a, p, i, j) == a[(p - 1) * 9 + 3 * (i - 1) + j]
T4(a, p, i, j, k, l) == a[(p - 1) * 81 + 27 * (i - 1) + 9 * (j - 1) + 3 * (k - 1) + l]
NPts(a) == Len(a) \div 9
I3 == (1..3) \X (1..3)
TolP(r, v) == r.tol + Abs(v) \div 32768
\* q P(QF) = N P(F)        (Q = N / q)
Objective(r) == \A p \in 1..NPts(r.P) : \A ij \in I3 :
                   Abs(r.q * T2(r.Pq, p, ij[1], ij[2]) - SumOver(1..3, LAMBDA k : r.N[ij[1]][k] * T2(r.P, p, k, ij[2])))
                      <= r.q * TolP(r, T2(r.Pq, p, ij[1], ij[2])) * 4
\* Kirchhoff stress P F^T symmetric   (F8 = 8 F exact integers)
KirchhoffSymmetric(r) == \A p \in 1..NPts(r.P) : \A ij \in I3 :
                            Abs(SumOver(1..3, LAMBDA k : T2(r.P, p, ij[1], k) * T2(r.F8, p, ij[2], k) - T2(r.P, p, ij[2], k) * T2(r.F8, p, ij[1], k)))
                               <= 64 * (r.tol + 8)
\* undeformed configuration with virgin state is stress free
StressFree(r) == \A n \in 1..Len(r.P0) : Abs(r.P0[n]) <= r.tol
\* major symmetry A_ijkl = A_klij
MajorSymmetry(r) == \A p \in 1..(Len(r.A) \div 81) : \A ij \in I3 : \A kl \in I3 :
                       Abs(T4(r.A, p, ij[1], ij[2], kl[1], kl[2]) - T4(r.A, p, kl[1], kl[2], ij[1], ij[2])) <= TolP(r, T4(r.A, p, ij[1], ij[2], kl[1], kl[2]))
\* isotropy: q P(F Q^T) = P(F) N^T
Isotropic(r) == \A p \in 1..NPts(r.P) : \A ij \in I3 :
                   Abs(r.q * T2(r.Pr, p, ij[1], ij[2]) - SumOver(1..3, LAMBDA k : T2(r.P, p, ij[1], k) * r.N[ij[2]][k]))
                      <= r.q * TolP(r, T2(r.Pr, p, ij[1], ij[2])) * 4
\* two implementations of one model agree (per-pair tolerance: absolute r.tol + relative 2^-r.relbits)
Agree(r) == Len(r.a) = Len(r.b) /\ \A n \in 1..Len(r.a) : Abs(r.a[n] - r.b[n]) <= r.tol + Abs(r.a[n]) \div IPow(2, r.relbits)
\* inputs bit-identical before / after; a reused output buffer gives the same result as a fresh one
NoAlias(r) == r.before = r.after /\ r.fresh = r.reused

\* ---- documented initial moduli (C12): parameters are dyadic, logged * 16 (r.par) ; result at scale S
Par(r, name) == r.par[name]
SumPar(r, name) == SumSeq(r.par[name])
K16 == S \div 16
Mu0(r) ==
  CASE r.model \in {"neo_hooke", "NeoHooke", "NeoHookeCompressible", "saint_venant_kirchhoff", "blatz_ko", "van_der_waals",
                    "OgdenRoxburgh", "ogden_roxburgh"} -> Par(r, "mu") * K16
    [] r.model = "Volumetric" -> 0
    [] r.model \in {"mooney_rivlin", "third_order_deformation"} -> 2 * (Par(r, "C10") + Par(r, "C01")) * K16
    [] r.model = "yeoh" -> 2 * Par(r, "C10") * K16
    [] r.model \in {"ogden", "lopez_pamies", "storakers"} -> SumPar(r, "mu") * K16
    [] r.model = "extended_tube" -> (Par(r, "Gc") + Par(r, "Ge")) * K16                   \* documented for delta = 0
    \* mu0 = mu (1 - 3N) / (3 - 3N)
    [] r.model = "anssari_benam_bucchi" -> (Par(r, "mu") * K16 * (Par(r, "N") * 3 - 16)) \div (Par(r, "N") * 3 - 48)
    \* mu = 2 (C1 + C2 / gamma + C3)
    [] r.model = "alexander" -> 2 * (Par(r, "C1") * K16 + (Par(r, "C2") * S) \div Par(r, "gamma") + Par(r, "C3") * K16)
    \* mu = C1 (1 + 3/(5 l^2) + 99/(175 l^4) + 513/(875 l^6) + 42039/(67375 l^8)),  l = limit (integer)
    [] r.model = "arruda_boyce" ->
         LET l2 == (Par(r, "limit") \div 16) * (Par(r, "limit") \div 16) IN
         (Par(r, "C1") * (S + (3 * S) \div (5 * l2) + (99 * S) \div (175 * l2 * l2) + (513 * S) \div (875 * l2 * l2 * l2)
                            + (42039 * (S \div 64)) \div ((67375 * l2 * l2 * l2 * l2) \div 64))) \div 16
    \* Lame constants from E, nu (nu = 1/4 in the cases): mu = E / (2 (1 + nu)) = 2E/5 ; K = E / (3 (1 - 2 nu)) = 2E/3
    [] r.model \in {"LinearElastic", "LinearElasticLargeStrain", "LinearElasticTensorNotation"} -> (2 * Par(r, "E") * K16) \div 5
K0(r) ==
  CASE r.model \in {"NeoHooke", "Volumetric"} -> Par(r, "bulk") * K16
    [] r.model \in {"NeoHookeCompressible", "saint_venant_kirchhoff"} -> Par(r, "lmbda") * K16 + (2 * Par(r, "mu") * K16) \div 3
    [] r.model = "blatz_ko" -> (5 * Par(r, "mu") * K16) \div 3                          \* Poisson ratio 1/4
    \* K = sum_i 2 mu_i (1/3 + beta_i)
    [] r.model = "storakers" -> SumOver(1..Len(r.par["mu"]), LAMBDA n : (2 * r.par["mu"][n] * K16) \div 3 + (2 * r.par["mu"][n] * r.par["beta"][n] * K16) \div 16)
    [] r.model \in {"LinearElastic", "LinearElasticLargeStrain", "LinearElasticTensorNotation"} -> (2 * Par(r, "E") * K16) \div 3
    [] OTHER -> 0                                                                       \* purely isochoric models
Delta(i, j) == IF i = j THEN 1 ELSE 0
\* A(1) = (K0 - 2/3 mu0) 1 x 1 + mu0 (1 o 1 + 1 ō 1)
InitialModuli(r) ==
  LET mu == Mu0(r)  lam3 == 3 * K0(r) - 2 * mu IN
  \A ij \in I3 : \A kl \in I3 :
     Abs(3 * T4(r.A, 1, ij[1], ij[2], kl[1], kl[2])
         - lam3 * Delta(ij[1], ij[2]) * Delta(kl[1], kl[2])
         - 3 * mu * (Delta(ij[1], kl[1]) * Delta(ij[2], kl[2]) + Delta(ij[1], kl[2]) * Delta(ij[2], kl[1]))) <= 3 * r.tol

\* history-dependent updates: the stencil must stay on one branch (elastic or plastic, below or at the stored maximum) at
\* every point -- r.modes[s] lists the branch taken at each point for stencil evaluation s (spec predicate on logged data)
OneBranch(r) == \A s \in 1..Len(r.modes) : r.modes[s] = r.modes[1]
\* NaN / inf are logged as the sentinel 2e9: such a record fails FiniteValues and nothing else is evaluated on it
Huge(sq) == \E n \in 1..Len(sq) : Abs(sq[n]) >= 1900000000
Arrays(r) == CASE r.kind = "deriv" -> <<r.D1, r.D2, r.D3, r.rhs>> [] r.kind = "objective" -> <<r.P, r.Pq>>
               [] r.kind = "kirchhoff" -> <<r.P>> [] r.kind = "stressfree" -> <<r.P0>> [] r.kind = "majorsym" -> <<r.A>>
               [] r.kind = "isotropic" -> <<r.P, r.Pr>> [] r.kind = "agree" -> <<r.a, r.b>> [] r.kind = "moduli" -> <<r.A>>
               [] OTHER -> <<>>
NotFinite(r) == \E n \in 1..Len(Arrays(r)) : Huge(Arrays(r)[n])
Clauses0(r) == CASE r.kind = "deriv" -> IF OneBranch(r) THEN {r.clause} ELSE {}
                [] r.kind = "objective" -> {"Objective"} [] r.kind = "kirchhoff" -> {"KirchhoffSymmetric"}
                [] r.kind = "stressfree" -> {"StressFree"} [] r.kind = "majorsym" -> {"MajorSymmetry"}
                [] r.kind = "isotropic" -> {"Isotropic"} [] r.kind = "agree" -> {r.clause}
                [] r.kind = "noalias" -> {"NoAlias"} [] r.kind = "moduli" -> {"InitialModuli"}
Holds(c, r) == CASE r.kind = "deriv" -> Stencil(r) [] r.kind = "agree" -> Agree(r)
                 [] c = "Objective" -> Objective(r) [] c = "KirchhoffSymmetric" -> KirchhoffSymmetric(r)
                 [] c = "StressFree" -> StressFree(r) [] c = "MajorSymmetry" -> MajorSymmetry(r)
                 [] c = "Isotropic" -> Isotropic(r) [] c = "NoAlias" -> NoAlias(r) [] c = "InitialModuli" -> InitialModuli(r)
Clauses(r) == IF NotFinite(r) THEN {"FiniteValues"} ELSE Clauses0(r)
Applicable(r) == Clauses(r)
Failing(r) == IF NotFinite(r) THEN {"FiniteValues"} ELSE {c \in Clauses(r) : ~Holds(c, r)}

\* ---- reference instance: Saint-Venant-Kirchhoff-like toy  W = (tr F)^2 / 2 : P = (tr F) 1, A = 1 x 1 ; at F = 1: P = 3 1
\* objectivity is NOT satisfied by this toy (it is written in F): the law must reject it for a 90 degree rotation
RotZ == << <<0, -1, 0>>, <<1, 0, 0>>, <<0, 0, 1>> >>
PToy(tr) == <<tr * S, 0, 0, 0, tr * S, 0, 0, 0, tr * S>>
ASSUME "Objective" \in Failing([kind |-> "objective", q |-> 1, N |-> RotZ, tol |-> 8, P |-> PToy(3), Pq |-> PToy(1)])
\* and accept a correct pair: P = F (W = F:F/2), F = diag(1,2,3): P(QF) = QF = Q P(F)
ASSUME Failing([kind |-> "objective", q |-> 1, N |-> RotZ, tol |-> 8, P |-> <<S, 0, 0, 0, 2 * S, 0, 0, 0, 3 * S>>,
                Pq |-> <<0, -2 * S, 0, S, 0, 0, 0, 0, 3 * S>>]) = {}
\* initial moduli of a Neo-Hookean solid mu = 1.5, bulk = 4: A_1111 = K + 4/3 mu = 6, A_1122 = K - 2/3 mu = 3, A_1212 = mu
RefA == [ijkl \in 1..81 |-> LET i == ((ijkl - 1) \div 27) + 1  j == (((ijkl - 1) \div 9) % 3) + 1  k == (((ijkl - 1) \div 3) % 3) + 1  l == ((ijkl - 1) % 3) + 1 IN
            3 * S * Delta(i, j) * Delta(k, l) + ((3 * S) \div 2) * (Delta(i, k) * Delta(j, l) + Delta(i, l) * Delta(j, k))]
ASSUME Failing([kind |-> "moduli", model |-> "NeoHooke", par |-> [mu |-> 24, bulk |-> 64], tol |-> 8, A |-> RefA]) = {}
ASSUME Failing([kind |-> "moduli", model |-> "NeoHooke", par |-> [mu |-> 48, bulk |-> 64], tol |-> 8, A |-> RefA]) = {"InitialModuli"}
=============================================================================
