SPECIFICATION Spec
CONSTANTS
  N = 2
  Mode = "sym_asym"
INVARIANTS ScheduleIndependent JoinWaits
PROPERTY Terminates
