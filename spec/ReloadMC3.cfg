SPECIFICATION Spec
CONSTANT MaxDepth = 3
INVARIANTS SaneInv Dump
PROPERTIES ReloadMakesFresh BareUpdateStales Isolation UniformIsNotSticky
CHECK_DEADLOCK FALSE
