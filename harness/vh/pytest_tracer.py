"""pytest plugin: records the solver-stack events of every test of the repository's own suite
(-p vh.pytest_tracer with PYTHONPATH=/verif/harness and FELUPE_VERIF_TRACE=<output ndjson>)."""
import os

import pytest

OUT = os.environ.get("FELUPE_VERIF_TRACE")
if OUT:
    from vh import tracer
    tracer.install()


@pytest.hookimpl(hookwrapper=True)
def pytest_runtest_call(item):
    if OUT:
        tracer.reset()
        tracer.begin(item.nodeid.replace("/", "_").replace("::", "__"))
    yield
    if OUT:
        # an exception that escaped the test body (or was caught by pytest.raises) may leave the protocol mid-way:
        # the trace is closed by the harness, the spec decides whether the prefix is explainable
        tracer.end()
        if len(tracer.EV) > 2:
            tracer.dump(OUT, "a")
        tracer.reset()
