"""Run-time tracer of the felupe solver stack (no source changes in /repo).

When installed it wraps module globals, class attributes and function defaults of felupe so that
one event is emitted per action of spec/Solver.tla, *after* the wrapped call returned (i.e. after
the state change).  Events carry a sequence number, cheap scalars and 8-byte content digests.
The tracer contains no pass/fail logic; traces are judged by TLC (spec/SolverTrace.tla).

Guard: nothing is wrapped unless install() is called; the harness and the pytest plugin call it
only when FELUPE_VERIF_TRACE is set.
"""
import functools
import hashlib
import inspect
import json

import numpy as np

EV = []
_SEQ = [0]
_IDS = {}
_KEEP = []
_DEPTH = [0]
_INSTALLED = [False]
MISSING = []
_JOBFILE = [False]


def dig(a):
    if a is None:
        return "none"
    try:
        a = np.ascontiguousarray(np.asarray(a, dtype=float))
    except Exception:
        return "obj"
    return hashlib.md5(a.tobytes()).hexdigest()[:12]


def xdig(x):
    if hasattr(x, "fields"):
        return dig(np.concatenate([f.values.ravel() for f in x.fields]))
    return dig(x)


def oid(obj):
    k = id(obj)
    if k not in _IDS:
        _IDS[k] = str(len(_IDS) + 1)
        _KEEP.append(obj)          # keep alive: python ids are reused after garbage collection
    return _IDS[k]


def emit(ev, **kw):
    _SEQ[0] += 1
    EV.append(dict(seq=_SEQ[0], ev=ev, **kw))


def begin(tid):
    _IDS.clear()
    del _KEEP[:]
    _DEPTH[0] = 0
    emit("TraceBegin", tid=str(tid))


def end(expect=None):
    emit("TraceEnd", expect=expect if expect is not None else {})


def reset():
    del EV[:]
    _SEQ[0] = 0
    _IDS.clear()
    del _KEEP[:]
    _DEPTH[0] = 0


def dump(path, mode="w"):
    with open(path, mode) as f:
        for e in EV:
            f.write(json.dumps(e, separators=(",", ":")) + "\n")


def _sv(items):
    if items is None:
        return {}
    out = {}
    for it in items:
        res = getattr(it, "results", None)
        out[oid(it)] = [dig(getattr(res, "statevars", None)), dig(getattr(res, "_statevars", None))]
    return out


def install():
    if _INSTALLED[0]:
        return
    _INSTALLED[0] = True
    import felupe
    import felupe.mechanics._helpers as HP
    import felupe.mechanics._job as JB
    import felupe.mechanics._step as ST
    import felupe.tools as TL
    import felupe.tools._newton as N

    top = lambda: _DEPTH[0] == 1  # noqa: E731  (events of nested Newton runs are not part of the protocol)

    # every hook point is optional: if an internal helper was renamed or removed, the corresponding events are simply absent
    # (MISSING lists them; the trace specification then reports unexplained events as specification drift)
    o_fun_items, o_jac_items = getattr(N, "fun_items", None), getattr(N, "jac_items", None)
    if o_fun_items is None or o_jac_items is None:
        MISSING.append("fun_items/jac_items")
        o_fun_items = o_fun_items or (lambda items, x, *a, **k: None)
        o_jac_items = o_jac_items or (lambda items, x, *a, **k: None)

    def fun_items(items, x, *a, **k):
        r = o_fun_items(items, x, *a, **k)
        if top():
            emit("FunItems", x=xdig(x), sv=_sv(items))
        return r

    def jac_items(items, x, *a, **k):
        r = o_jac_items(items, x, *a, **k)
        if top():
            emit("JacItems", x=xdig(x))
        return r

    if "fun_items/jac_items" not in MISSING:
        N.fun_items, N.jac_items = fun_items, jac_items
    if getattr(TL, "fun_items", None) is o_fun_items:
        TL.fun_items = fun_items
    if getattr(TL, "jac_items", None) is o_jac_items:
        TL.jac_items = jac_items

    o_upd = getattr(HP.Results, "update_statevars", None)
    if o_upd is None:
        MISSING.append("Results.update_statevars")
        o_upd = lambda self: None  # noqa: E731
    owner = {}

    def update_statevars(self):
        had = self._statevars is not None
        o_upd(self)
        if top():
            emit("Commit", item=owner.get(id(self), "r" + oid(self)), had=bool(had), sv=dig(self.statevars))

    if "Results.update_statevars" not in MISSING:
        HP.Results.update_statevars = update_statevars

    def w_check(f):
        @functools.wraps(f)
        def check(*a, **k):
            items = k.get("items")
            if items is not None:
                for it in items:
                    if hasattr(it, "results"):
                        owner[id(it.results)] = oid(it)
            r = f(*a, **k)
            if top():
                emit("Check", success=bool(r[2]), nan=bool(np.any(np.isnan([r[0], r[1]]))))
            return r
        return check

    def w_update(f):
        @functools.wraps(f)
        def update(x, dx):
            r = f(x, dx)
            if top():
                emit("Update", x=xdig(r))
            return r
        return update

    def w_solve(f):
        @functools.wraps(f)
        def solve(*a, **k):
            r = f(*a, **k)
            if top():
                emit("Solve")
            return r
        solve.__signature__ = inspect.signature(f)
        return solve

    def w_fun(f):
        @functools.wraps(f)
        def fun(x, *a, **k):
            r = f(x, *a, **k)
            if top():
                emit("FunItems", x=xdig(x), sv={})
            return r
        return fun

    def w_jac(f):
        @functools.wraps(f)
        def jac(x, *a, **k):
            r = f(x, *a, **k)
            if top():
                emit("JacItems", x=xdig(x))
            return r
        return jac

    o_newton = N.newtonrhapson
    sig = inspect.signature(o_newton)
    wrappers = {"check": w_check, "update": w_update, "solve": w_solve, "fun": w_fun, "jac": w_jac}

    @functools.wraps(o_newton)
    def newtonrhapson(*a, **k):
        ba = sig.bind(*a, **k)
        ba.apply_defaults()
        args = ba.arguments
        for name, w in wrappers.items():
            args[name] = w(args[name])
        _DEPTH[0] += 1
        if top():
            items = args.get("items")
            x0 = args.get("x0")
            emit("NewtonBegin", maxiter=int(args["maxiter"]),
                 items=[oid(it) for it in items] if items is not None else [],
                 first=oid(items[0]) if items else "none",
                 usex0=x0 is not None, x0=xdig(x0) if x0 is not None else "none")
        try:
            r = o_newton(*ba.args, **ba.kwargs)
        except BaseException as ex:
            if top():
                msg = str(ex)
                kind = "nan" if "NaN" in msg else ("maxiter" if "Maximum number of iterations" in msg else "other:" + type(ex).__name__)
                emit("Raise", kind=kind)
            _DEPTH[0] -= 1
            raise
        if top():
            emit("Return", success=bool(r.success), iterations=int(r.iterations), x=xdig(r.x))
        _DEPTH[0] -= 1
        return r

    for mod in (N, TL, ST, felupe):
        if getattr(mod, "newtonrhapson", None) is o_newton:
            mod.newtonrhapson = newtonrhapson

    o_gen = ST.Step.generate

    def generate(self, **kw):
        for it in list(self.ramp.keys()):
            if not getattr(it, "_vh_wrapped", False):
                o = it.update

                def upd(value, o=o, it=it):
                    o(value)
                    if _DEPTH[0] == 0:
                        emit("RampUpdate", item=oid(it), value=dig(value))
                try:
                    it.update = upd
                    it._vh_wrapped = True
                except Exception:
                    pass
        x0 = kw.get("x0")
        emit("StepBegin", items=[oid(it) for it in self.items], first=oid(self.items[0]) if self.items else "none",
             extra=[oid(it) for it in self.ramp.keys() if all(it is not b for b in self.items)],
             ramp={oid(it): [dig(v) for v in vals] for it, vals in self.ramp.items()},
             nsub=int(self.nsubsteps), usex0=x0 is not None, x0=xdig(x0) if x0 is not None else "none")
        yield from o_gen(self, **kw)
        emit("StepEnd")

    ST.Step.generate = generate

    o_write = getattr(JB.Job, "_write", None)
    if o_write is None:
        MISSING.append("Job._write")
        o_write = lambda self, *a, **k: None  # noqa: E731

    wsig = inspect.signature(o_write)

    def _write(self, *a, **k):
        r = o_write(self, *a, **k)
        if not _JOBFILE[0]:          # a Frame event means: the running job writes a result file (whatever helper the job calls otherwise)
            return r
        try:
            ba = wsig.bind(self, *a, **k).arguments          # whatever the signature is: the frame time and the substep written
            emit("Frame", time=int(ba["time"]), x=xdig(ba["substep"].x))
        except Exception:  # noqa: BLE001  (helper signature changed beyond recognition: no Frame event)
            if "Job._write signature" not in MISSING:
                MISSING.append("Job._write signature")
        return r

    if "Job._write" not in MISSING:
        JB.Job._write = _write

    o_eval = JB.Job.evaluate

    def evaluate(self, *a, **k):
        ba = inspect.signature(o_eval).bind(self, *a, **k)
        ba.apply_defaults()
        x0 = ba.arguments.get("kwargs", {}).get("x0")
        emit("JobBegin", nsteps=len(self.steps), usex0=x0 is not None, x0=xdig(x0) if x0 is not None else "none",
             file=ba.arguments.get("filename") is not None)
        _JOBFILE[0] = ba.arguments.get("filename") is not None
        cb = self.callback

        def callback(j, i, substep, **kw):
            r = cb(j, i, substep, **kw)
            emit("Callback", step=int(j) + 1, sub=int(i) + 1, x=xdig(substep.x))
            return r

        self.callback = callback
        try:
            r = o_eval(self, *a, **k)
        except BaseException:
            emit("JobRaise")
            raise
        finally:
            self.callback = cb
        emit("JobEnd")
        return r

    JB.Job.evaluate = evaluate
