"""Shared plumbing: TLC runner, trace sharding/validation, verdicts, known findings, evidence.

No pass/fail judgement about felupe lives here: verdicts are produced by the TLA+ modules
(written by TLC into a verdict file) and only collected, compared with known_findings.json
and reported by this module.
"""
import concurrent.futures as cf
import fnmatch
import glob
import json
import os
import re
import shutil
import subprocess
import sys
import time

VERIF = os.path.dirname(os.path.dirname(os.path.dirname(os.path.abspath(__file__))))
SPEC = os.path.join(VERIF, "spec")
JAR = "/opt/veriftools/tla/tla2tools.jar"
DEPS = "/opt/veriftools/tla/CommunityModules-deps.jar"
PY = "/venv/bin/python"
NCPU = os.cpu_count() or 4


class MachineryError(Exception):
    pass


def _trim(o, n=12):
    """shorten long arrays so that a sample record is readable in the evidence file"""
    if isinstance(o, list):
        if len(o) > n:
            return [_trim(x, n) for x in o[:n]] + ["...(%d more)" % (len(o) - n)]
        return [_trim(x, n) for x in o]
    if isinstance(o, dict):
        return {k: _trim(v, n) for k, v in o.items()}
    return o


class Ctx:
    def __init__(self, pid, tier, seed, replay=None):
        self.pid, self.tier, self.seed, self.replay = pid, tier, seed, replay
        self.t0 = time.time()
        self.work = os.path.join(VERIF, ".work", "%s-%d" % (pid, os.getpid()))
        shutil.rmtree(self.work, ignore_errors=True)
        os.makedirs(self.work)
        self.tlc_runs = []
        self.records = 0
        self.events = 0
        self.nontrivial = set()
        self.failures = []
        self.drift_clauses = set()
        self.drift_prefixes = ()      # dicts: id, clause, (module)
        self.samples = []
        self.clause_counts = {}
        self.behaviours = 0
        self.extra = {}
        self.assumptions = []
        self.exhaustive = False
        self.rule = ""
        self.only = None
        if replay:
            with open(replay) as f:
                rp = json.load(f)
            self.only = sorted({x["id"] for x in rp.get("failures", [])})

    # ------------------------------------------------------------------ TLC
    def tlc(self, module, cfg=None, env=None, workers=1, timeout=1800, simulate=None,
            coverage=False, tag=None, extra_args=(), heap="3g", deadlock=None):
        cfg = cfg or module + ".cfg"
        tag = tag or (module + "-" + os.path.splitext(os.path.basename(cfg))[0])
        meta = os.path.join(self.work, "meta-" + tag + "-" + str(len(self.tlc_runs)))
        gc = "-XX:+UseSerialGC" if workers == 1 else "-XX:+UseParallelGC"
        jtmp = os.path.join(self.work, "jtmp")           # TLC's scratch directories go with the work directory (removed at the end)
        os.makedirs(jtmp, exist_ok=True)
        cmd = ["java", gc, "-Xmx" + heap, "-Djava.io.tmpdir=" + jtmp, "-cp", JAR + ":" + DEPS, "tlc2.TLC",
               "-workers", str(workers), "-metadir", meta, "-noGenerateSpecTE",
               "-config", cfg]
        if coverage:
            cmd += ["-coverage", "1"]
        if simulate:
            cmd += ["-simulate", simulate]
        cmd += list(extra_args) + [module + ".tla"]
        e = dict(os.environ)
        e.update(env or {})
        t = time.time()
        try:
            p = subprocess.run(cmd, cwd=SPEC, env=e, capture_output=True, text=True, timeout=timeout)
            out, rc = p.stdout + p.stderr, p.returncode
        except subprocess.TimeoutExpired as ex:
            out = (ex.stdout or b"").decode(errors="replace") if isinstance(ex.stdout, bytes) else (ex.stdout or "")
            rc = -9
        shutil.rmtree(meta, ignore_errors=True)
        run = {"module": module, "cfg": cfg, "rc": rc, "wall_s": round(time.time() - t, 2),
               "generated": 0, "distinct": 0, "depth": 0, "out": out, "tag": tag}
        m = re.findall(r"(\d+) states generated, (\d+) distinct states found", out)
        if m:
            run["generated"], run["distinct"] = int(m[-1][0]), int(m[-1][1])
        m = re.search(r"depth of the complete state graph search is (\d+)", out)
        if m:
            run["depth"] = int(m.group(1))
        if simulate:
            m = re.findall(r"Progress: (\d+) states checked, (\d+) traces generated", out)
            if m:
                run["generated"] = int(m[-1][0]); run["distinct"] = int(m[-1][0]); run["traces"] = int(m[-1][1])
        self.tlc_runs.append(run)
        return run

    def tlc_model(self, module, cfg=None, **kw):
        """model check; any error (invariant, assumption, deadlock) is reported to the caller"""
        kw.setdefault("workers", min(8, NCPU))
        r = self.tlc(module, cfg, **kw)
        r["ok"] = (r["rc"] == 0)
        return r

    def require_model_ok(self, r):
        if not r["ok"]:
            tail = "\n".join(r["out"].splitlines()[-40:])
            raise MachineryError("TLC model run %s/%s failed rc=%s\n%s" % (r["module"], r["cfg"], r["rc"], tail))

    # --------------------------------------------------------------- driver
    def drive(self, driver, nshards=None, extra=(), timeout=3600, env=None, name=None):
        """run harness/vh/drivers/<driver>.py under the repo's interpreter; returns shard paths"""
        nshards = nshards or min(NCPU, 16)
        name = name or driver
        prefix = os.path.join(self.work, name)
        cmd = [PY, "-m", "vh.drivers." + driver, "--out", prefix, "--tier", self.tier,
               "--seed", str(self.seed), "--shards", str(nshards)] + list(extra)
        if os.environ.get("VERIF_COVERAGE"):
            # diagnostic only (tools/coverage.sh): which lines of felupe do the drivers execute
            cmd = [PY, "-m", "coverage", "run", "--parallel-mode", "--data-file", os.path.join(os.environ["VERIF_COVERAGE"], ".coverage"),
                   "--source", "felupe"] + cmd[1:]
        if self.only is not None:
            of = os.path.join(self.work, "only.json")
            with open(of, "w") as f:
                json.dump(self.only, f)
            cmd += ["--only", of]
        e = dict(os.environ)
        pp = [os.path.join(VERIF, "harness")]
        if os.environ.get("VERIF_REPO_SRC"):
            pp.insert(0, os.environ["VERIF_REPO_SRC"])
        if e.get("PYTHONPATH"):
            pp.append(e["PYTHONPATH"])
        e["PYTHONPATH"] = ":".join(pp)
        e.setdefault("OMP_NUM_THREADS", "1")
        e.setdefault("OPENBLAS_NUM_THREADS", "1")
        e.setdefault("JAX_PLATFORMS", "cpu")
        e.update(env or {})
        t = time.time()
        p = subprocess.run(cmd, cwd=self.work, env=e, capture_output=True, text=True, timeout=timeout)
        if p.returncode != 0:
            # an exception raised INSIDE felupe on a spec-issued case is a finding about felupe (the public API must return a value
            # on every valid case), not a failure of the machinery: report it (clause NoException) and judge the records written so far
            frames = re.findall(r'File "([^"]+)", line (\d+), in (\S+)', p.stderr)
            lib = os.environ.get("VERIF_REPO_SRC") or "/repo/src"
            # the exception belongs to felupe if, below the last frame of the harness, the stack passes through felupe (it may
            # surface in numpy / scipy underneath): report the deepest felupe frame
            hidx = max([n for n, fr in enumerate(frames) if "/verif/harness" in fr[0]], default=-1)
            inlib = [fr for fr in frames[hidx + 1:] if (fr[0].startswith(lib) or "/felupe/" in fr[0]) and "/verif/harness" not in fr[0]]
            last = inlib[-1] if inlib else None
            if last:
                err = (p.stderr.strip().splitlines() or ["?"])[-1][:200]
                self.failures.append({"id": "%s:exception@%s:%s" % (name, os.path.basename(last[0]), last[1]), "clause": "NoException",
                                      "module": driver, "detail": err})
                self.extra.setdefault("driver_exceptions", []).append(err)
            else:
                raise MachineryError("driver %s failed rc=%d\n%s\n%s" % (driver, p.returncode, p.stdout[-3000:], p.stderr[-6000:]))
        self.extra.setdefault("driver_wall_s", {})[name] = round(time.time() - t, 2)
        shards = sorted(glob.glob(prefix + "*.ndjson"))
        shards = [s for s in shards if os.path.getsize(s) > 0]
        return shards

    # ------------------------------------------------------------- validate
    def validate(self, module, shards, cfg=None, timeout=3600, heap="3g", env=None, count=True):
        """TLC-validate every shard (one TLC process per shard, in parallel); collect verdicts"""
        if not shards:
            if self.failures:          # the driver stopped on an exception inside felupe before writing anything: already reported
                return []
            raise MachineryError("no trace shards to validate for %s" % module)

        def one(sh):
            vf = sh + ".verdict.json"
            if os.path.exists(vf):
                os.remove(vf)
            ee = {"TRACE_FILE": sh, "VERDICT_FILE": vf}
            ee.update(env or {})
            r = self.tlc(module, cfg or module + ".cfg", env=ee, workers=1, timeout=timeout, heap=heap,
                         tag=module + "-" + os.path.basename(sh))
            return sh, vf, r

        with cf.ThreadPoolExecutor(max_workers=min(NCPU, 16)) as ex:
            res = list(ex.map(one, shards))
        for sh, vf, r in res:
            if r["rc"] != 0 or not os.path.exists(vf):
                lines = r["out"].splitlines()
                first = next((n for n, ln in enumerate(lines) if "Error" in ln or "exception" in ln), max(0, len(lines) - 30))
                tail = "\n".join(lines[first:first + 14] + ["..."] + lines[-12:])
                raise MachineryError("trace validation %s on %s failed rc=%s (overflow / unconsumed trace / crash)\n%s"
                                     % (module, sh, r["rc"], tail))
            with open(vf) as f:
                v = json.load(f)
            nrec = 0
            with open(sh) as f:
                for i, line in enumerate(f):
                    nrec += 1
                    if count:
                        try:
                            rec = json.loads(line)
                        except Exception:
                            continue
                        if rec.get("nt", True):
                            self.nontrivial.add(rec.get("id", "%s:%d" % (sh, i)))
                        if len(self.samples) < 3 and i == 0:
                            self.samples.append(_trim(rec))
            if v.get("n") != nrec:
                raise MachineryError("validator consumed %s of %d records in %s" % (v.get("n"), nrec, sh))
            if count:
                self.records += nrec
            else:
                self.events += nrec
            for b in v.get("bad", []):
                self.failures.append({"id": b[0], "clause": b[1], "module": module})
            for k, n in (v.get("cnt") or {}).items():
                self.clause_counts[k] = self.clause_counts.get(k, 0) + n
        return res

    def require_clauses(self, names):
        """anti-vacuity: every listed clause must have been evaluated on at least one record"""
        if self.only is not None:
            return
        missing = [n for n in names if self.clause_counts.get(n, 0) == 0]
        if missing and not self.failures:       # reported violations take precedence over the vacuity guard
            raise MachineryError("vacuous run: clauses never evaluated: %s" % missing)

    # -------------------------------------------------------------- verdict
    def finish(self, level="model_checking"):
        kf_path = os.path.join(VERIF, "known_findings.json")
        known = []
        if os.path.exists(kf_path):
            with open(kf_path) as f:
                known = [k for k in json.load(f).get("findings", []) if k["property"] == self.pid]
        new, seen_known, drift = [], {}, {}
        for fl in self.failures:
            if fl["clause"] in self.drift_clauses or any(fl["clause"].startswith(pfx) for pfx in self.drift_prefixes):
                drift.setdefault(fl["clause"], []).append(fl["id"])
                continue
            hit = None
            for k in known:
                if fnmatch.fnmatchcase(fl["id"], k["id"]) and fl["clause"] == k["clause"]:
                    hit = k
                    break
            if hit is not None:
                seen_known.setdefault((hit["id"], hit["clause"]), hit)
            else:
                new.append(fl)
        for (kid, kcl), k in sorted(seen_known.items()):
            print("KNOWN-FINDING: property=%s case=%s clause=%s %s" % (self.pid, kid, kcl, k.get("summary", "")))
        # the implementation no longer follows the specification in a respect the property itself does not state: reported, not a violation
        for c, ids in sorted(drift.items()):
            print("SPEC-DRIFT: property=%s clause=%s records=%d e.g. %s (the code deviates from the specification module in a respect "
                  "the property does not state; bring the specification up to date)" % (self.pid, c, len(ids), ids[0]))
        self.extra["spec_drift"] = {c: len(ids) for c, ids in drift.items()}
        rc = 0
        replay_path = None
        if new:
            rdir = os.path.join(VERIF, "evidence", "replay")
            os.makedirs(rdir, exist_ok=True)
            replay_path = os.path.join(rdir, "%s-%s-%d.json" % (self.pid, self.tier, self.seed))
            with open(replay_path, "w") as f:
                json.dump({"property": self.pid, "tier": self.tier, "seed": self.seed, "failures": new[:200]}, f, indent=1)
            byc = {}
            for fl in new:
                byc.setdefault(fl["clause"], []).append(fl["id"])
            for c, ids in sorted(byc.items()):
                print("  failing clause %s on %d record(s): %s" % (c, len(ids), ", ".join(ids[:6]) + (" ..." if len(ids) > 6 else "")))
            print("VIOLATION property=%s replay=%s" % (self.pid, replay_path))
            rc = 1
        self.write_evidence(level, len(new))
        shutil.rmtree(self.work, ignore_errors=True)
        try:
            os.rmdir(os.path.join(VERIF, ".work"))
        except OSError:
            pass
        if rc == 0:
            print("OK property=%s tier=%s records=%d tlc_states=%d clauses=%s wall=%.1fs" % (
                self.pid, self.tier, self.records, sum(r["distinct"] for r in self.tlc_runs),
                json.dumps(self.clause_counts, sort_keys=True), time.time() - self.t0))
        return rc

    def write_evidence(self, level, nviol):
        states = sum(r["distinct"] for r in self.tlc_runs)
        trans = sum(r["generated"] for r in self.tlc_runs)
        cov = {
            "states": max(states, 1), "transitions": max(trans, 1),
            "traces_validated_against_impl": self.records + self.behaviours,
            "samples": self.samples or [{"note": "no record sampled"}],
            "evaluations": max(self.records + self.behaviours, 1),
            "distinct_nontrivial": len(self.nontrivial),
            "rule": self.rule,
            "exhaustive": bool(self.exhaustive),
            "clause_evaluations": self.clause_counts,
            "trace_events_validated": self.events,
            "tlc_runs": [{k: r[k] for k in ("module", "cfg", "rc", "generated", "distinct", "depth", "wall_s")}
                         for r in self.tlc_runs if not r["tag"].count(".ndjson")] +
                        [{"module": m, "shards": n, "generated": g, "distinct": d} for (m, n, g, d) in self._shard_summary()],
        }
        cov.update(self.extra)
        ev = {"property_id": self.pid, "tier": self.tier, "seed": int(self.seed), "level": level,
              "coverage": cov, "assumptions": self.assumptions, "wall_s": round(time.time() - self.t0, 2),
              "violations": int(nviol)}
        os.makedirs(os.path.join(VERIF, "evidence"), exist_ok=True)
        with open(os.path.join(VERIF, "evidence", self.pid + ".json"), "w") as f:
            json.dump(ev, f, indent=1, sort_keys=True)

    def _shard_summary(self):
        agg = {}
        for r in self.tlc_runs:
            if r["tag"].count(".ndjson"):
                a = agg.setdefault(r["module"], [0, 0, 0])
                a[0] += 1; a[1] += r["generated"]; a[2] += r["distinct"]
        return [(m, a[0], a[1], a[2]) for m, a in sorted(agg.items())]
