"""C13 driver: extracts the face tables from the working tree (identity cell), and logs selections
and geometric arrays of real boundary regions on lattice / distorted / curved meshes.
NO judgement here (Surface.tla)."""
import itertools

import numpy as np

import felupe as fem
import felupe.region._boundary as RB

from .common import Out, args, q, qi

S = 2 ** 20

TYPES = {
    "quad": (RB.boundary_cells_quad, fem.element.Quad, fem.RegionQuad, fem.RegionQuadBoundary, 2),
    "quad8": (RB.boundary_cells_quad8, fem.element.QuadraticQuad, fem.RegionQuadraticQuad, fem.RegionQuadraticQuadBoundary, 2),
    "quad9": (RB.boundary_cells_quad9, fem.element.BiQuadraticQuad, fem.RegionBiQuadraticQuad, fem.RegionBiQuadraticQuadBoundary, 2),
    "hexahedron": (RB.boundary_cells_hexahedron, fem.element.Hexahedron, fem.RegionHexahedron, fem.RegionHexahedronBoundary, 3),
    "hexahedron20": (RB.boundary_cells_hexahedron20, fem.element.QuadraticHexahedron, fem.RegionQuadraticHexahedron,
                     fem.RegionQuadraticHexahedronBoundary, 3),
    "hexahedron27": (RB.boundary_cells_hexahedron27, fem.element.TriQuadraticHexahedron, fem.RegionTriQuadraticHexahedron,
                     fem.RegionTriQuadraticHexahedronBoundary, 3),
}


def tables(ct):
    fn, El, _, _, dim = TYPES[ct]
    e = El()
    nn = len(e.points)
    mesh = fem.Mesh(e.points.copy(), np.arange(nn).reshape(1, -1), ct)
    cells, faces = fn(mesh)
    return e, nn, dim, cells[0], faces[0]


def base_mesh(ct, n, how="plain", rng=None):
    dim = TYPES[ct][4]
    m = fem.Rectangle(n=n) if dim == 2 else fem.Cube(n=n)
    if how in ("affine", "perturbed"):
        # distort the straight-sided (linear) mesh first: mid-nodes stay edge / face / cell centroids
        m = distort(m, ct, how, rng)
    if ct in ("quad8", "hexahedron20"):
        m = m.add_midpoints_edges()
    elif ct == "quad9":
        m = m.convert(2, True, True)
    elif ct == "hexahedron27":
        m = m.convert(2, True, True, True)
    if how in ("curved", "bulged"):
        m = distort(m, ct, how, rng)
    return m


def distort(mesh, ct, how, rng):
    pts = mesh.points.copy()
    dim = pts.shape[1]
    if how == "affine":
        A = np.eye(dim) + rng.randint(-2, 3, size=(dim, dim)) / 8.0
        pts = pts @ A.T + rng.randint(-3, 4, size=dim) / 4.0
    elif how == "perturbed":
        inner = np.all((pts > 1e-9) & (pts < 1 - 1e-9), axis=1)
        pts[inner] += rng.randint(-2, 3, size=(inner.sum(), dim)) / 32.0
    elif how == "curved":
        # smooth non-affine map (keeps mid-nodes consistent up to curvature): x += a * sin-free polynomial bump
        x = pts.copy()
        pts = x + 0.1 * np.stack([x[:, (k + 1) % dim] * (1 - x[:, (k + 1) % dim]) * (1 if k % 2 == 0 else -1) for k in range(dim)], axis=1)
    elif how == "bulged":
        # radial bulge: DOUBLY curved faces (the closure / flux identities are exact only with the full face rule of the quadratic types)
        x = pts.copy()
        r2 = ((x - 0.5) ** 2).sum(axis=1)
        pts = x + 0.5 * (x - 0.5) * (0.25 * dim - r2)[:, None]
    elif how == "lshape":
        pass
    return fem.Mesh(pts, mesh.cells, mesh.cell_type)


def lshape(ct):
    """non-convex body: remove one corner block of cells of a 2x2(x2) mesh"""
    m = base_mesh(ct, 3)
    dim = m.points.shape[1]
    cent = m.points[m.cells[:, :2 ** dim]].mean(axis=1)
    keep = ~np.all(cent > 0.5, axis=1)
    mm = fem.Mesh(m.points, m.cells[keep], m.cell_type)
    return fem.mesh.sweep(mm) if hasattr(fem.mesh, "sweep") else mm


def surface_record(rid, mesh, ct, only_surface, ensure_3d, mask=None, closed=True, tol=64):
    _, _, Reg, RegB, dim = TYPES[ct]
    kw = dict(only_surface=only_surface, ensure_3d=ensure_3d)
    if mask is not None:
        kw["mask"] = mask
    rb = RegB(mesh, **kw)
    rv = Reg(mesh)
    nq, nf = rb.dV.shape
    vdim = rb.dA.shape[0]
    ncorner = 2 ** dim
    xq = np.einsum("aq,cak->kqc", rb.h[..., 0] if rb.h.ndim == 3 else rb.h, mesh.points[rb.mesh.cells])
    if vdim > dim:
        xq = np.vstack([xq, np.zeros((vdim - dim, nq, nf))])
    cc = mesh.points[rb.mesh.cells[:, :ncorner]].mean(axis=1)     # centre of the (rotated) cell of each face
    if vdim > dim:
        cc = np.hstack([cc, np.zeros((nf, vdim - dim))])

    def fl(a):          # (vdim, nq, nf) -> face, q, comp
        return q(np.transpose(a, (2, 1, 0)), S)

    return {"id": rid, "kind": "surface", "nt": True, "S": S, "gdim": dim, "vdim": int(vdim), "nq": int(nq), "nf": int(nf),
            "n": fl(rb.normals), "dA": fl(rb.dA), "dV": q(rb.dV.T, S), "t": [fl(t) for t in rb.tangents], "xq": fl(xq),
            "cc": q(cc, S), "V": q(rv.dV.sum(), S)[0], "closed": bool(closed and only_surface and mask is None),
            "percell": bool(not only_surface and mask is None), "fpc": 2 * dim, "tol": 16 + 4 * int(nf) * int(nq) * int(vdim)}


def selection_record(rid, mesh, ct, only_surface, mask):
    fn, _, _, RegB, dim = TYPES[ct]
    _, nn, _, cells_t, faces_t = tables(ct)
    kw = dict(only_surface=only_surface)
    if mask is not None:
        kw["mask"] = mask
    rb = RegB(mesh, grad=False, **kw)
    return {"id": rid, "kind": "selection", "nt": True, "mcells": [qi(c) for c in mesh.cells], "ftab": [qi(f) for f in faces_t],
            "onlysurface": bool(only_surface), "mask": qi((mask if mask is not None else np.ones(mesh.npoints, bool)).astype(int)),
            "sel": [qi(f) for f in rb.mesh.cells_faces]}


def main():
    a = args()
    out = Out(a)
    quick = a.tier == "quick"
    rng = np.random.RandomState(13 + a.seed)
    for ct in TYPES:
        e, nn, dim, cells_t, faces_t = tables(ct)
        rid = "table-" + ct
        if out.want(rid):
            out.write({"id": rid, "kind": "table", "nt": True, "dim": dim, "nn": nn, "ncorner": 2 ** (dim - 1),
                       "X": [qi(np.rint(p)) for p in e.points], "cells": [qi(c) for c in cells_t], "faces": [qi(f) for f in faces_t]})
        hows = ["plain", "affine", "perturbed", "curved"] + (["bulged"] if ct not in ("quad", "hexahedron") else [])
        for how in hows:
            for n in ((2, 3) if quick or dim == 3 else (2, 3, 4)):
                if how == "bulged" and n > 2:
                    continue              # one cell: few terms, tight bound on the sums
                if dim == 3 and n == 3 and ct != "hexahedron" and quick:
                    continue
                mesh = base_mesh(ct, n, how, np.random.RandomState(rng.randint(0, 2 ** 31 - 1)))
                for only_surface in (True, False):
                    for e3 in ((False, True) if dim == 2 else (False,)):
                        rid = "surface-%s-%s-n%d-os%d-e3%d" % (ct, how, n, only_surface, e3)
                        if out.want(rid):
                            out.write(surface_record(rid, mesh, ct, only_surface, e3))
        # non-convex body with interior faces
        rid = "surface-%s-lshape" % ct
        if out.want(rid):
            out.write(surface_record(rid, lshape(ct), ct, True, False))
        # selections: all point masks of a 2x2 quad mesh (exhaustive, 512), sampled masks elsewhere
        mesh = base_mesh(ct, 3 if dim == 2 else 2)
        if ct == "quad":
            for bits in range(512):
                mask = np.array([(bits >> k) & 1 for k in range(9)], dtype=bool)
                for os_ in (True, False):
                    rid = "selection-quad-mask%03d-os%d" % (bits, os_)
                    if out.want(rid):
                        out.write(selection_record(rid, mesh, ct, os_, mask))
        else:
            for c in range(8 if quick else 64):
                mask = rng.rand(mesh.npoints) < 0.7
                for os_ in (True, False):
                    rid = "selection-%s-%d-%d-os%d" % (ct, a.seed, c, os_)
                    if out.want(rid):
                        out.write(selection_record(rid, mesh, ct, os_, mask))
            for os_ in (True, False):
                rid = "selection-%s-nomask-os%d" % (ct, os_)
                if out.want(rid):
                    out.write(selection_record(rid, lshape(ct), ct, os_, None))
        # masked surface records (a face of the body)
        m2 = base_mesh(ct, 3 if dim == 2 else 2)
        mask = m2.points[:, 0] == 1.0
        rid = "surface-%s-masked" % ct
        if out.want(rid):
            out.write(surface_record(rid, m2, ct, True, False, mask=mask, closed=False))
    out.close()


if __name__ == "__main__":
    main()
