"""C18 driver: free-vibration jobs; logs the K / M blocks re-assembled from the items, the returned
eigenpairs, extracted mode shapes and frequencies.  NO judgement here (Modal.tla)."""
import warnings

import numpy as np

warnings.filterwarnings("ignore")

import felupe as fem  # noqa: E402

from .common import Out, args, q, qi  # noqa: E402

S = 2 ** 20
SM = 2 ** 20
SL = 2 ** 16


def body(kind, rng, n=None):
    if kind == "hex":
        mesh = fem.Cube(b=(2, 1, 1), n=n or (3, 2, 2))
        f = fem.FieldContainer([fem.Field(fem.RegionHexahedron(mesh), dim=3)])
    elif kind == "tet":
        mesh = fem.Cube(b=(2, 1, 1), n=n or (3, 2, 2)).triangulate()
        f = fem.FieldContainer([fem.Field(fem.RegionTetra(mesh), dim=3)])
    elif kind == "quad":
        mesh = fem.Rectangle(b=(2, 1), n=n or (4, 3))
        f = fem.FieldContainer([fem.FieldPlaneStrain(fem.RegionQuad(mesh), dim=2)])
    else:
        mesh = fem.Rectangle(b=(2, 1), n=(3, 2)).add_midpoints_edges()
        f = fem.FieldContainer([fem.FieldPlaneStrain(fem.RegionQuadraticQuad(mesh), dim=2)])
    return mesh, f


def shifted(A, M, sigma=0, k=6, **kw):
    """dense generalised symmetric eigen-solver handed to FreeVibration.evaluate(solver=...): the stiffness of an unconstrained body is
    singular at the default shift, and ARPACK (random start vector) may miss copies of the six-fold zero eigenvalue or of a
    repeated bending frequency -- the dense solver is deterministic and returns all multiplicities"""
    from scipy.linalg import eigh
    # M may be singular (one-point rules), K is singular (rigid modes), K + M is positive definite:
    # M v = theta (K + M) v  with  lambda = 1 / theta - 1 ; the largest theta are the smallest lambda
    Kd, Md = A.toarray(), M.toarray()
    th, v = eigh(Md, Kd + Md)
    th, v = th[::-1][:k], v[:, ::-1][:, :k]
    return 1.0 / th - 1.0, v


def main():
    a = args()
    out = Out(a)
    quick = a.tier == "quick"
    rng = np.random.RandomState(1800 + a.seed)
    for kind in ("hex", "tet", "quad", "quad8"):
        for rep in range(1 if quick else 4):
            E = float(rng.choice([4.0, 8.0, 16.0]))
            rho = float(rng.choice([0.5, 1.0, 2.0]))
            nmodes = int(rng.choice([3, 4, 6]))
            rid = "pairs-%s-%d" % (kind, rep)
            if out.want(rid):
                mesh, f = body(kind, rng)
                solid = fem.SolidBody(fem.LinearElastic(E=E, nu=0.25), f, density=rho)
                bnames = ["left", "leftx"][rep % 2]
                if bnames == "left":
                    b = {"left": fem.Boundary(f[0], fx=0)}
                else:       # symmetry planes: no rigid-body mode is left (the pencil is regular at the default shift 0)
                    b = {"left": fem.Boundary(f[0], fx=0, skip=(0, 1, 1)[:f[0].dim]), "bottom": fem.Boundary(f[0], fy=0, skip=(1, 0, 1)[:f[0].dim])}
                    if f[0].dim == 3:
                        b["back"] = fem.Boundary(f[0], fz=0, skip=(1, 1, 0))
                job = fem.FreeVibration(items=[solid], boundaries=b).evaluate(k=nmodes)
                fresh = fem.SolidBody(fem.LinearElastic(E=E, nu=0.25), f.copy(), density=rho)       # independent re-assembly
                K = fresh.assemble.matrix().toarray()
                M = fresh.assemble.mass().toarray()
                dof0, dof1 = fem.dof.partition(f, b)
                ext, freq = [], []
                for k in range(nmodes):
                    fld, fr = job.extract(k, inplace=False)
                    ext.append(q(np.concatenate([x.values.ravel() for x in fld.fields]), S))
                    freq.append(q(fr, S)[0])
                out.write({"id": rid, "kind": "pairs", "nt": True, "n1": int(len(dof1)), "tol": 128, "K": q(K[np.ix_(dof1, dof1)], SM),
                           "M": q(M[np.ix_(dof1, dof1)], SM), "lam": q(job.eigenvalues, SL), "vec": [q(job.eigenvectors[:, k], S) for k in range(nmodes)],
                           "ext": ext, "freq": freq, "dof0": qi(dof0), "dof1": qi(dof1)})
            rid = "rigid-%s-%d" % (kind, rep)
            if out.want(rid):
                mesh, f = body(kind, rng)
                dim = f[0].dim
                nr = 3 if dim == 2 else 6
                k = nr + 3
                solid = fem.SolidBody(fem.LinearElastic(E=E, nu=0.25), f, density=rho)
                lam = fem.FreeVibration(items=[solid], boundaries={}).evaluate(k=k, solver=shifted).eigenvalues
                Q = np.array([[3, -4], [4, 3]]) / 5.0 if dim == 2 else np.array([[2, -1, 2], [2, 2, -1], [-1, 2, 2]]) / 3.0
                moved = fem.Mesh(mesh.points @ Q.T + 2.0, mesh.cells, mesh.cell_type)
                cls = type(f[0].region)
                f2 = fem.FieldContainer([type(f[0])(cls(moved), dim=dim)])
                lam2 = fem.FreeVibration(items=[fem.SolidBody(fem.LinearElastic(E=E, nu=0.25), f2, density=rho)], boundaries={}).evaluate(
                    k=k, solver=shifted).eigenvalues
                out.write({"id": rid, "kind": "rigid", "nt": True, "nrigid": nr, "zerotol": 16, "lam": q(np.sort(lam), SL), "lammoved": q(np.sort(lam2), SL)})
    for rep in range(1 if quick else 3):
        rid = "mixed-%d" % rep
        if out.want(rid):
            mesh = fem.Cube(b=(2, 1, 1), n=(3, 2, 2))
            region = fem.RegionHexahedron(mesh)
            f = fem.FieldsMixed(region, n=3)
            solid = fem.SolidBody(fem.ThreeFieldVariation(fem.NeoHooke(mu=1.25, bulk=20.0)), f, density=1.5)
            b = {"left": fem.Boundary(f[0], fx=0)}
            job = fem.FreeVibration(items=[solid], boundaries=b).evaluate(k=3)
            fresh = fem.SolidBody(fem.ThreeFieldVariation(fem.NeoHooke(mu=1.25, bulk=20.0)), f.copy(), density=1.5)
            K = fresh.assemble.matrix().toarray()
            M = fresh.assemble.mass().toarray()
            n = K.shape[0]
            Mf = np.zeros((n, n))
            Mf[:M.shape[0], :M.shape[1]] = M
            dof0, dof1 = fem.dof.partition(f, b)
            nu = f[0].values.size
            out.write({"id": rid, "kind": "mixed", "nt": True, "n1": int(len(dof1)), "tol": 256, "K": q(K[np.ix_(dof1, dof1)], SM),
                       "M": q(Mf[np.ix_(dof1, dof1)], SM), "lam": q(job.eigenvalues, SL), "vec": [q(job.eigenvectors[:, k], S) for k in range(3)],
                       "Mextra": q(Mf[nu:, :].ravel(), SM) + q(Mf[:, nu:].ravel(), SM)})
        # mixed container with prescribed unknowns in the extra fields too; modes extracted as copies and in place, one after the other
        rid = "mixed-extract-%d" % rep
        if out.want(rid):
            mesh = fem.Cube(b=(2, 1, 1), n=(3, 2, 2))
            f = fem.FieldsMixed(fem.RegionHexahedron(mesh), n=3)
            mat = lambda: fem.ThreeFieldVariation(fem.NeoHooke(mu=1.25, bulk=20.0))  # noqa: E731
            solid = fem.SolidBody(mat(), f, density=1.5)
            maskJ = np.zeros(f[2].values.shape, dtype=bool)
            maskJ[rng.choice(maskJ.shape[0], size=2, replace=False)] = True
            b = {"left": fem.Boundary(f[0], fx=0, skip=(0, 1, 1)), "bottom": fem.Boundary(f[0], fy=0, skip=(1, 0, 1)),
                 "back": fem.Boundary(f[0], fz=0, skip=(1, 1, 0)), "J": fem.Boundary(f[2], mask=maskJ)}
            nm = 4
            job = fem.FreeVibration(items=[solid], boundaries=b).evaluate(k=nm)
            fresh = fem.SolidBody(mat(), fem.FieldsMixed(fem.RegionHexahedron(mesh), n=3), density=1.5)
            K = fresh.assemble.matrix().toarray()
            M = fresh.assemble.mass().toarray()
            n = K.shape[0]
            Mf = np.zeros((n, n))
            Mf[:M.shape[0], :M.shape[1]] = M
            dof0, dof1 = fem.dof.partition(f, b)
            ext, freq = [], []
            for k in range(nm):
                # even modes: copy; odd modes: in place on the items' container (which then holds the previous mode / the initial J = 1)
                fld, fr = job.extract(k, inplace=bool(k % 2))
                ext.append(q(np.concatenate([x.values.ravel() for x in fld.fields]), S))
                freq.append(q(fr, S)[0])
            out.write({"id": rid, "kind": "pairs", "nt": True, "n1": int(len(dof1)), "tol": 256, "K": q(K[np.ix_(dof1, dof1)], SM),
                       "M": q(Mf[np.ix_(dof1, dof1)], SM), "lam": q(job.eigenvalues, SL), "vec": [q(job.eigenvectors[:, k], S) for k in range(nm)],
                       "ext": ext, "freq": freq, "dof0": qi(dof0), "dof1": qi(dof1)})
    # the same body analysed twice with the density changed in between: the second analysis must use the mass of the new density
    for rep in range(1 if quick else 3):
        rid = "redensity-%d" % rep
        if out.want(rid):
            mesh, f = body("hex", rng)
            rho1, rho2 = 2.0, 0.5
            solid = fem.SolidBody(fem.LinearElastic(E=8.0, nu=0.25), f, density=rho1)
            b = {"left": fem.Boundary(f[0], fx=0, skip=(0, 1, 1)), "bottom": fem.Boundary(f[0], fy=0, skip=(1, 0, 1)),
                 "back": fem.Boundary(f[0], fz=0, skip=(1, 1, 0))}
            nm = 3
            fem.FreeVibration(items=[solid], boundaries=b).evaluate(k=nm)
            solid.assemble.mass()
            solid.density = rho2
            job = fem.FreeVibration(items=[solid], boundaries=b).evaluate(k=nm)
            fresh = fem.SolidBody(fem.LinearElastic(E=8.0, nu=0.25), f.copy(), density=rho2)
            K = fresh.assemble.matrix().toarray()
            M = fresh.assemble.mass().toarray()
            dof0, dof1 = fem.dof.partition(f, b)
            ext, freq = [], []
            for k in range(nm):
                fld, fr = job.extract(k, inplace=False)
                ext.append(q(np.concatenate([x.values.ravel() for x in fld.fields]), S))
                freq.append(q(fr, S)[0])
            out.write({"id": rid, "kind": "pairs", "nt": True, "n1": int(len(dof1)), "tol": 128, "K": q(K[np.ix_(dof1, dof1)], SM),
                       "M": q(M[np.ix_(dof1, dof1)], SM), "lam": q(job.eigenvalues, SL), "vec": [q(job.eigenvectors[:, k], S) for k in range(nm)],
                       "ext": ext, "freq": freq, "dof0": qi(dof0), "dof1": qi(dof1)})
    # several items with different elastic constants, densities and scale factors on one global field (x0):
    # K = sum_i multiplier_i K_i and M = sum_i M_i, each re-assembled from a fresh copy of the item
    # the scale factors are placed on the items in every pattern of the item order (last only, first only, both, none): an item
    # without a factor that follows one with a factor is scaled by one
    for rep in range(4 if quick else 12):
        rid = "multi-%d" % rep
        if not out.want(rid):
            continue
        threed = rep % 2 == 1
        if threed:
            parts = [fem.Cube(a=(0, 0, 0), b=(1, 1, 1), n=(2, 2, 2)), fem.Cube(a=(1, 0, 0), b=(3, 1, 1), n=(3, 2, 2))]
            Reg, Fld, dim = fem.RegionHexahedron, fem.Field, 3
        else:
            parts = [fem.Rectangle(a=(0, 0), b=(1, 1), n=(3, 3)), fem.Rectangle(a=(1, 0), b=(3, 1), n=(4, 3))]
            Reg, Fld, dim = fem.RegionQuad, fem.FieldPlaneStrain, 2
        cont = fem.MeshContainer(parts, merge=True)
        gmesh = cont.stack()
        x0 = fem.FieldContainer([Fld(Reg(gmesh), dim=dim)])
        mus = float(rng.choice([2.0, 3.0])), float(rng.choice([4.0, 0.5]))
        mu_a, mu_b = [(None, mus[0]), (mus[1], None), (mus[1], mus[0]), (None, None)][(rep // 2) % 4]
        par = [(float(rng.choice([2.0, 4.0])), 0.25, float(rng.choice([0.5, 1.0])), mu_a),
               (float(rng.choice([1.0, 8.0])), 0.375, float(rng.choice([1.5, 2.0])), mu_b)]
        mk = lambda: [fem.SolidBody(fem.LinearElastic(E=E_, nu=nu_), fem.FieldContainer([Fld(Reg(m_), dim=dim)]), density=rho_,  # noqa: E731
                                    **({} if mu_ is None else {"multiplier": mu_})) for (E_, nu_, rho_, mu_), m_ in zip(par, cont.meshes)]
        b = {"left": fem.Boundary(x0[0], fx=0, skip=(0, 1, 1)[:dim]), "bottom": fem.Boundary(x0[0], fy=0, skip=(1, 0, 1)[:dim])}
        if dim == 3:
            b["back"] = fem.Boundary(x0[0], fz=0, skip=(1, 1, 0))
        nm = 4
        job = fem.FreeVibration(items=mk(), boundaries=b).evaluate(x0=x0, k=nm)
        n = x0[0].values.size
        K, M = np.zeros((n, n)), np.zeros((n, n))
        for it, (E_, nu_, rho_, mu_) in zip(mk(), par):
            it.field.link(x0)
            Ki = it.assemble.matrix().toarray()
            Mi = it.assemble.mass().toarray()
            K[:Ki.shape[0], :Ki.shape[1]] += (1.0 if mu_ is None else mu_) * Ki
            M[:Mi.shape[0], :Mi.shape[1]] += Mi
        dof0, dof1 = fem.dof.partition(x0, b)
        ext, freq = [], []
        for k in range(nm):
            fld, fr = job.extract(k, x0=x0, inplace=False)
            ext.append(q(np.concatenate([x.values.ravel() for x in fld.fields]), S))
            freq.append(q(fr, S)[0])
        out.write({"id": rid, "kind": "pairs", "nt": True, "n1": int(len(dof1)), "tol": 128, "K": q(K[np.ix_(dof1, dof1)], SM),
                   "M": q(M[np.ix_(dof1, dof1)], SM), "lam": q(job.eigenvalues, SL), "vec": [q(job.eigenvectors[:, k], S) for k in range(nm)],
                   "ext": ext, "freq": freq, "dof0": qi(dof0), "dof1": qi(dof1)})
    out.close()


if __name__ == "__main__":
    main()
