"""C18 driver: free-vibration jobs; logs the K / M blocks re-assembled from the items, the returned
eigenpairs, extracted mode shapes and frequencies.  NO judgement here (Modal.tla)."""
import warnings

import numpy as np

warnings.filterwarnings("ignore")

import felupe as fem  # noqa: E402

from .common import Out, args, q, qi  # noqa: E402

S = 2 ** 20
SM = 2 ** 20
SL = 2 ** 16


def body(kind, rng, n=None):
    if kind == "hex":
        mesh = fem.Cube(b=(2, 1, 1), n=n or (3, 2, 2))
        f = fem.FieldContainer([fem.Field(fem.RegionHexahedron(mesh), dim=3)])
    elif kind == "tet":
        mesh = fem.Cube(b=(2, 1, 1), n=n or (3, 2, 2)).triangulate()
        f = fem.FieldContainer([fem.Field(fem.RegionTetra(mesh), dim=3)])
    elif kind == "quad":
        mesh = fem.Rectangle(b=(2, 1), n=n or (4, 3))
        f = fem.FieldContainer([fem.FieldPlaneStrain(fem.RegionQuad(mesh), dim=2)])
    else:
        mesh = fem.Rectangle(b=(2, 1), n=(3, 2)).add_midpoints_edges()
        f = fem.FieldContainer([fem.FieldPlaneStrain(fem.RegionQuadraticQuad(mesh), dim=2)])
    return mesh, f


def shifted(A, M, sigma=0, **kw):
    """eigsh with a negative shift (the stiffness of an unconstrained body is singular at sigma = 0)"""
    from scipy.sparse.linalg import eigsh
    return eigsh(A, M=M, sigma=-1.0, **kw)


def main():
    a = args()
    out = Out(a)
    quick = a.tier == "quick"
    rng = np.random.RandomState(1800 + a.seed)
    for kind in ("hex", "tet", "quad", "quad8"):
        for rep in range(1 if quick else 4):
            E = float(rng.choice([4.0, 8.0, 16.0]))
            rho = float(rng.choice([0.5, 1.0, 2.0]))
            nmodes = int(rng.choice([3, 4, 6]))
            rid = "pairs-%s-%d" % (kind, rep)
            if out.want(rid):
                mesh, f = body(kind, rng)
                solid = fem.SolidBody(fem.LinearElastic(E=E, nu=0.25), f, density=rho)
                bnames = ["left", "leftx"][rep % 2]
                if bnames == "left":
                    b = {"left": fem.Boundary(f[0], fx=0)}
                else:       # symmetry planes: no rigid-body mode is left (the pencil is regular at the default shift 0)
                    b = {"left": fem.Boundary(f[0], fx=0, skip=(0, 1, 1)[:f[0].dim]), "bottom": fem.Boundary(f[0], fy=0, skip=(1, 0, 1)[:f[0].dim])}
                    if f[0].dim == 3:
                        b["back"] = fem.Boundary(f[0], fz=0, skip=(1, 1, 0))
                job = fem.FreeVibration(items=[solid], boundaries=b).evaluate(k=nmodes)
                fresh = fem.SolidBody(fem.LinearElastic(E=E, nu=0.25), f.copy(), density=rho)       # independent re-assembly
                K = fresh.assemble.matrix().toarray()
                M = fresh.assemble.mass().toarray()
                dof0, dof1 = fem.dof.partition(f, b)
                ext, freq = [], []
                for k in range(nmodes):
                    fld, fr = job.extract(k, inplace=False)
                    ext.append(q(np.concatenate([x.values.ravel() for x in fld.fields]), S))
                    freq.append(q(fr, S)[0])
                out.write({"id": rid, "kind": "pairs", "nt": True, "n1": int(len(dof1)), "tol": 128, "K": q(K[np.ix_(dof1, dof1)], SM),
                           "M": q(M[np.ix_(dof1, dof1)], SM), "lam": q(job.eigenvalues, SL), "vec": [q(job.eigenvectors[:, k], S) for k in range(nmodes)],
                           "ext": ext, "freq": freq, "dof0": qi(dof0), "dof1": qi(dof1)})
            rid = "rigid-%s-%d" % (kind, rep)
            if out.want(rid):
                mesh, f = body(kind, rng)
                dim = f[0].dim
                nr = 3 if dim == 2 else 6
                k = nr + 3
                solid = fem.SolidBody(fem.LinearElastic(E=E, nu=0.25), f, density=rho)
                lam = fem.FreeVibration(items=[solid], boundaries={}).evaluate(k=k, solver=shifted).eigenvalues
                Q = np.array([[3, -4], [4, 3]]) / 5.0 if dim == 2 else np.array([[2, -1, 2], [2, 2, -1], [-1, 2, 2]]) / 3.0
                moved = fem.Mesh(mesh.points @ Q.T + 2.0, mesh.cells, mesh.cell_type)
                cls = type(f[0].region)
                f2 = fem.FieldContainer([type(f[0])(cls(moved), dim=dim)])
                lam2 = fem.FreeVibration(items=[fem.SolidBody(fem.LinearElastic(E=E, nu=0.25), f2, density=rho)], boundaries={}).evaluate(
                    k=k, solver=shifted).eigenvalues
                out.write({"id": rid, "kind": "rigid", "nt": True, "nrigid": nr, "zerotol": 16, "lam": q(np.sort(lam), SL), "lammoved": q(np.sort(lam2), SL)})
    for rep in range(1 if quick else 3):
        rid = "mixed-%d" % rep
        if out.want(rid):
            mesh = fem.Cube(b=(2, 1, 1), n=(3, 2, 2))
            region = fem.RegionHexahedron(mesh)
            f = fem.FieldsMixed(region, n=3)
            solid = fem.SolidBody(fem.ThreeFieldVariation(fem.NeoHooke(mu=1.0, bulk=20.0)), f, density=1.5)
            b = {"left": fem.Boundary(f[0], fx=0)}
            job = fem.FreeVibration(items=[solid], boundaries=b).evaluate(k=3)
            fresh = fem.SolidBody(fem.ThreeFieldVariation(fem.NeoHooke(mu=1.0, bulk=20.0)), f.copy(), density=1.5)
            K = fresh.assemble.matrix().toarray()
            M = fresh.assemble.mass().toarray()
            n = K.shape[0]
            Mf = np.zeros((n, n))
            Mf[:M.shape[0], :M.shape[1]] = M
            dof0, dof1 = fem.dof.partition(f, b)
            nu = f[0].values.size
            out.write({"id": rid, "kind": "mixed", "nt": True, "n1": int(len(dof1)), "tol": 256, "K": q(K[np.ix_(dof1, dof1)], SM),
                       "M": q(Mf[np.ix_(dof1, dof1)], SM), "lam": q(job.eigenvalues, SL), "vec": [q(job.eigenvectors[:, k], S) for k in range(3)],
                       "Mextra": q(Mf[nu:, :].ravel(), SM) + q(Mf[:, nu:].ravel(), SM)})
    out.close()


if __name__ == "__main__":
    main()
