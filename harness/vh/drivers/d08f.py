"""C08 driver (field update part): executes every program exported by FieldsMC on real FieldContainers and logs, per executed
step, the operation and the observed heap before and after (container -> field object ids, field object -> buffer id,
buffer -> integer content).  NO judgement here (FieldsTrace.tla)."""
import copy
import warnings

import numpy as np

warnings.filterwarnings("ignore")

import felupe as fem  # noqa: E402

from .common import Out, args  # noqa: E402


def world0():
    mesh = fem.mesh.Line(n=2)
    region = fem.Region(mesh, fem.Line(), fem.GaussLegendre(order=1, dim=1))

    def cont():
        return fem.FieldContainer([fem.Field(region, dim=2), fem.Field(region, dim=1)])

    return {"a": cont(), "b": cont()}


def observe(world):
    fo_ids, ar_ids = {}, {}
    cont, fobj, heap = {}, [], []
    for name in sorted(world):
        seq = []
        for f in world[name].fields:
            k = id(f)
            if k not in fo_ids:
                fo_ids[k] = len(fo_ids) + 1
                ptr = (f.values.__array_interface__["data"][0], f.values.shape, f.values.strides)
                if ptr not in ar_ids:
                    ar_ids[ptr] = len(ar_ids) + 101
                    v = np.asarray(f.values, float).ravel() * UNIT
                    if not np.all(np.isfinite(v)) or np.abs(v - np.rint(v)).max() > 0 or np.abs(v).max() > 2e9:
                        raise ValueError("content not representable at scale 1 / %d" % UNIT)
                    heap.append([ar_ids[ptr], [int(x) for x in v]])
                fobj.append([fo_ids[k], ar_ids[ptr]])
            seq.append(fo_ids[k])
        cont[name] = seq
    return {"cont": cont, "fobj": fobj, "heap": heap}


UNIT = 1024


def wvec(kind, v, n, off=0):
    g = np.arange(1, n + 1) + off
    return (1.0 + ((g + v) % 2)) if kind in ("mul", "div") else (float(v) * g)


def total(c):
    return int(sum(f.values.size for f in c.fields))


def parse(tok):
    k = tok.split(":")
    if k[0] == "iop":
        return {"op": "iop", "c": k[1], "kind": k[2], "v": int(k[3])}
    if k[0] == "fiop":
        return {"op": "fiop", "c": k[1], "k": int(k[2]), "kind": k[3], "v": int(k[4])}
    if k[0] == "fill":
        return {"op": "fill", "c": k[1], "k": int(k[2]), "v": int(k[3])}
    if k[0] == "ffop":
        return {"op": "ffop", "c": k[1], "k": int(k[2]), "d": k[3], "j": int(k[4]), "kind": k[5]}
    if k[0] == "link":
        return {"op": "link", "a": k[1], "b": k[2]}
    if k[0] == "copy":
        return {"op": "copy", "a": k[1], "t": k[2]}
    if k[0] == "plus":
        return {"op": "plus", "a": k[1], "kind": k[2], "v": int(k[3]), "t": k[4]}
    if k[0] == "join":
        return {"op": "join", "a": k[1], "b": k[2], "t": k[3]}
    raise ValueError(tok)


def execute(world, op):
    o = op["op"]
    if o == "iop":
        c = world[op["c"]]
        w = wvec(op["kind"], op["v"], total(c))
        if op["kind"] == "add":
            c += w
        elif op["kind"] == "sub":
            c -= w
        elif op["kind"] == "mul":
            c *= w
        else:
            c /= w
    elif o == "fiop":
        f = world[op["c"]][op["k"] - 1]
        w = wvec(op["kind"], op["v"], f.values.size)
        if op["kind"] == "add":
            f += w
        else:
            f *= w
    elif o == "ffop":
        f, g = world[op["c"]][op["k"] - 1], world[op["d"]][op["j"] - 1]
        if op["kind"] == "add":
            f += g
        else:
            f -= g
    elif o == "fill":
        world[op["c"]][op["k"] - 1].fill(float(op["v"]))
    elif o == "link":
        world[op["a"]].link(world[op["b"]])
    elif o == "copy":
        world[op["t"]] = world[op["a"]].copy()
    elif o == "plus":
        a = world[op["a"]]
        w = wvec(op["kind"], op["v"], total(a))
        world[op["t"]] = {"add": lambda: a + w, "sub": lambda: a - w, "mul": lambda: a * w, "div": lambda: a / w}[op["kind"]]()
    elif o == "join":
        world[op["t"]] = world[op["a"]] & world[op["b"]]
    else:
        raise ValueError(o)


def main():
    a = args()
    opts = dict(o.split("=", 1) for o in a.opt.split(";") if o)
    out = Out(a)
    with open(opts["programs"]) as f:
        programs = sorted({ln.strip().strip('"').split("|", 1)[1] for ln in f if "PROGRAM|" in ln})
    limit = int(opts.get("limit", "0"))
    if limit and len(programs) > limit:
        rng = np.random.RandomState(a.seed)
        short = [p for p in programs if p.count(",") <= 1]
        long_ = [p for p in programs if p.count(",") > 1]
        programs = sorted(short + list(rng.choice(long_, size=max(0, limit - len(short)), replace=False)))
    cache = {"": world0()}
    for prog in programs:
        ops = prog.split(",")
        for n in range(1, len(ops) + 1):
            key = ",".join(ops[:n])
            if key in cache:
                continue
            parent = cache.get(",".join(ops[:n - 1]))
            if parent is None:
                cache[key] = None
                continue
            world = copy.deepcopy(parent)            # one deepcopy of the whole world keeps all sharing between containers
            op = parse(ops[n - 1])
            if not out.want(key):
                try:
                    execute(world, op)
                    cache[key] = world
                except Exception:
                    cache[key] = None
                continue

            ok = []

            def step(world=world, op=op, key=key):
                pre = observe(world)
                execute(world, op)
                ok.append(1)
                return {"id": key, "kind": "fieldstep", "nt": True, "op": op, "pre": pre, "post": observe(world)}

            out.attempt(key, step)
            cache[key] = world if ok else None
    out.close()


if __name__ == "__main__":
    main()
