"""C10 driver: builds both sides of each equivalence (plane strain / slab, axisymmetric energy and
revolved model, condensed / three-field, uniform / general) from one spec-issued case and logs both.
NO judgement here (Reduced.tla)."""
import warnings

import numpy as np

warnings.filterwarnings("ignore")

import felupe as fem  # noqa: E402
import felupe.constitution.tensortrax.models.hyperelastic as th  # noqa: E402

from .common import Out, args, q, qi  # noqa: E402

S = 2 ** 20
SK = 2 ** 18
SD = 2 ** 22
H = 2.0 ** -6
MATS = {"neohooke": lambda: fem.NeoHooke(mu=1.25, bulk=3.0), "svk-ad": lambda: fem.Hyperelastic(th.saint_venant_kirchhoff, mu=1.25, lmbda=2.0),
        "mooneyrivlin-ad": lambda: fem.Hyperelastic(th.mooney_rivlin, C10=0.25, C01=0.25) & fem.Volumetric(bulk=3.0)}


def perturb(m, rng, amp=1 / 16.0):
    P = m.points + rng.randint(-1, 2, size=m.points.shape) * amp * (np.all((m.points > m.points.min(0) + 1e-9) & (m.points < m.points.max(0) - 1e-9), axis=1))[:, None]
    return fem.Mesh(P, m.cells, m.cell_type)


def centre_numbered():
    base = fem.Rectangle(n=3)
    cells = np.array([[4, 3, 0, 1], [4, 1, 2, 5], [4, 7, 6, 3], [4, 5, 8, 7]])
    region = fem.RegionQuad(fem.Mesh(base.points, cells, "quad"))
    fem.FieldDual(region, disconnect=False)
    return region


def main():
    a = args()
    out = Out(a)
    quick = a.tier == "quick"
    rng = np.random.RandomState(1000 + a.seed)
    reps = 2 if quick else 8
    for rep in range(reps):
        for mn in (["neohooke", "svk-ad"] if quick else list(MATS)):
            for fam in ("quad", "quad8"):
                rid = "planestrain-%s-%s-%d" % (fam, mn, rep)
                if not out.want(rid):
                    continue
                m2 = perturb(fem.Rectangle(n=3), rng)
                u2 = rng.randint(-1, 2, size=(m2.npoints, 2)) / 32.0
                m3 = m2.expand(n=2, z=1.0)
                n2 = m2.npoints
                if fam == "quad8":
                    continue_ = True
                    # serendipity: the extruded 20-node hexahedron needs mid-edge points in the thickness direction; compared for linear cells only
                    continue
                r2 = fem.RegionQuad(m2)
                f2 = fem.FieldContainer([fem.FieldPlaneStrain(r2, dim=2, values=u2)])
                s2 = fem.SolidBody(MATS[mn](), f2)
                f3 = fem.FieldContainer([fem.Field(fem.RegionHexahedron(m3), dim=3, values=np.vstack([np.pad(u2, ((0, 0), (0, 1)))] * 2))])
                s3 = fem.SolidBody(MATS[mn](), f3)
                out.write({"id": rid, "kind": "planestrain", "nt": True, "n2": int(n2), "tol": 8,
                           "f2": q(s2.assemble.vector().toarray()[:, 0], SK), "K2": q(s2.assemble.matrix().toarray(), SK),
                           "f3": q(s3.assemble.vector().toarray()[:, 0], SK), "K3": q(s3.assemble.matrix().toarray(), SK)})
            rid = "axienergy-%s-%d" % (mn, rep)
            if out.want(rid) and mn == "neohooke":
                ma = perturb(fem.Rectangle(a=(0, 0.5), b=(1, 1.5), n=3), rng)
                ra = fem.RegionQuad(ma)
                ua = rng.randint(-1, 2, size=(ma.npoints, 2)) / 32.0
                fa = fem.FieldContainer([fem.FieldAxisymmetric(ra, dim=2, values=ua)])
                umat = MATS[mn]()
                fv = fem.SolidBody(umat, fa).assemble.vector().toarray()[:, 0]

                def Pi():
                    F = fa.extract()[0]
                    return float((2 * np.pi * fa[0].radius * umat.function([F, None])[0] * ra.dV).sum())

                D = [[], [], []]
                flat = fa[0].values.ravel()
                for j in range(fv.size):
                    v0 = flat[j]
                    for k, s in enumerate((1, 2, 3)):
                        fa[0].values.ravel()[j] = v0 + s * H
                        pp = Pi()
                        fa[0].values.ravel()[j] = v0 - s * H
                        mm = Pi()
                        D[k].append(pp - mm)
                    fa[0].values.ravel()[j] = v0
                out.write({"id": rid, "kind": "axienergy", "nt": True, "D1": q(D[0], SD), "D2": q(D[1], SD), "D3": q(D[2], SD), "f": q(fv, SK)})
        rid = "axirevolved-%d" % rep
        if out.want(rid):
            ma = perturb(fem.Rectangle(a=(0, 0.5), b=(1, 1.5), n=3), rng)
            ua = rng.randint(-1, 2, size=(ma.npoints, 2)) / 32.0
            umat = MATS["neohooke"]()
            fa = fem.FieldContainer([fem.FieldAxisymmetric(fem.RegionQuad(ma), dim=2, values=ua)])
            f2d = fem.SolidBody(umat, fa).assemble.vector().toarray()[:, 0].reshape(-1, 2)
            rings = []
            npp = ma.npoints
            for nseg in (8, 16, 32):
                m3 = ma.revolve(n=nseg + 1, phi=360)
                P = m3.points
                rad = np.sqrt(P[:, 1] ** 2 + P[:, 2] ** 2)
                idx = np.arange(m3.npoints) % npp
                er = np.stack([P[:, 1] / rad, P[:, 2] / rad], 1)
                u3 = np.zeros_like(P)
                u3[:, 0] = ua[idx, 0]
                u3[:, 1:] = ua[idx, 1:2] * er
                f3 = fem.FieldContainer([fem.Field(fem.RegionHexahedron(m3), dim=3, values=u3)])
                fv3 = fem.SolidBody(umat, f3).assemble.vector().toarray()[:, 0].reshape(-1, 3)
                fz = np.array([fv3[idx == p, 0].sum() for p in range(npp)])
                fr = np.array([(fv3[idx == p, 1:] * er[idx == p]).sum() for p in range(npp)])
                rings.append(q(np.stack([fz, fr], 1), S))
            out.write({"id": rid, "kind": "axirevolved", "nt": True, "f2": q(f2d, S), "rings": rings, "bound": 64})
        for fam, mkreg in (("hex", lambda: fem.RegionHexahedron(perturb(fem.Cube(n=3), rng))),
                           ("hex20", lambda: fem.RegionQuadraticHexahedron(perturb(fem.Cube(n=2), rng).add_midpoints_edges())),
                           # (families whose dual region is cell-wise constant; the tri-quadratic hexahedron has a linear dual)
                           ("quad", lambda: fem.RegionQuad(perturb(fem.Rectangle(n=4), rng))),
                           ("quad8", lambda: fem.RegionQuadraticQuad(fem.Rectangle(n=3).add_midpoints_edges())),
                           # all cells numbered from one common point, and a CONNECTED dual field of the same region class requested
                           # before (its option must not leak into the mixed fields built afterwards)
                           ("quadcentre", lambda: centre_numbered()),
                           # the axisymmetric field kind: a ring section away from the axis (R in [1, 2]), perturbed
                           ("axi", lambda: fem.RegionQuad(perturb(fem.Rectangle(a=(0, 1), b=(1, 2), n=4), rng)))):
          rid = "condensed-%s-%d" % (fam, rep)
          if out.want(rid) and (fam == "hex" or rep == 0):
            bulk = float([8.0, 20.0, 64.0, 200.0][rep % 4])
            move = [0.2, 0.3, -0.15, 0.1][rep % 4]
            region = mkreg()
            dim = region.mesh.dim
            mkf = (lambda r: fem.Field(r, dim=3)) if dim == 3 else (lambda r: fem.FieldPlaneStrain(r, dim=2))
            if fam == "axi":
                mkf = lambda r: fem.FieldAxisymmetric(r, dim=2)  # noqa: E731
            f = fem.FieldContainer([mkf(region)])
            b, lc = fem.dof.uniaxial(f, clamped=True, move=move)
            sb = fem.SolidBodyNearlyIncompressible(fem.NeoHooke(mu=1.25), f, bulk=bulk)
            res = fem.newtonrhapson(items=[sb], verbose=0, tol=1e-10, **lc)
            fm = fem.FieldsMixed(region, n=3, planestrain=(dim == 2)) if dim == 2 else fem.FieldsMixed(region, n=3)
            if fam == "axi":
                fm = fem.FieldsMixed(region, n=3, axisymmetric=True)
            b2, lc2 = fem.dof.uniaxial(fm, clamped=True, move=move)
            sm = fem.SolidBody(fem.ThreeFieldVariation(fem.NeoHooke(mu=1.25, bulk=bulk)), fm)
            res2 = fem.newtonrhapson(items=[sm], verbose=0, tol=1e-10, **lc2)
            out.write({"id": rid, "kind": "condensed", "nt": True, "tol": 32, "u": q(res.x[0].values, S), "u3": q(res2.x[0].values, S),
                       "p": q(np.ravel(sb.results.state.p), SK), "p3": q(res2.x[1].values.ravel(), SK),
                       "J": q(np.ravel(sb.results.state.J), S), "J3": q(res2.x[2].values.ravel(), S)})
        for cls, mk, n, dim in ((fem.RegionQuad, fem.Rectangle, (3 + rep, 3), 2), (fem.RegionHexahedron, fem.Cube, (3, 2 + rep % 3, 3), 3)):
            rid = "uniform-%s-%d" % (cls.__name__, rep)
            if not out.want(rid):
                continue
            mesh = mk(n=n)
            if rep % 2 == 1:
                # congruent parallelepiped cells: the grid rotated by a rational rotation and sheared (still a uniform grid)
                Q = np.array([[3, -4], [4, 3]]) / 5.0 if dim == 2 else np.array([[2, -1, 2], [2, 2, -1], [-1, 2, 2]]) / 3.0
                Sh = np.eye(dim)
                Sh[0, 1] = 0.25
                mesh = fem.Mesh(mesh.points @ (Q @ Sh).T, mesh.cells, mesh.cell_type)
            vals = rng.randint(-1, 2, size=(mesh.npoints, dim)) / 32.0
            res = []
            for uni in (False, True):
                region = cls(mesh, uniform=uni)
                fc = fem.FieldContainer([(fem.FieldPlaneStrain if dim == 2 else fem.Field)(region, dim=dim, values=vals)])
                sb = fem.SolidBody(MATS["neohooke"](), fc)
                res.append((q(sb.assemble.vector().toarray()[:, 0], SK), q(sb.assemble.matrix().toarray(), SK)))
            out.write({"id": rid, "kind": "uniform", "nt": True, "fa": res[0][0], "Ka": res[0][1], "fb": res[1][0], "Kb": res[1][1]})
    out.close()


if __name__ == "__main__":
    main()
