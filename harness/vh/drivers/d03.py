"""C03 / C11 / C12 driver: evaluates every constitutive model on spec-issued lattice deformation
gradients (batched along the trailing axes) and logs energies / stresses / elasticity tensors,
symmetric stencil differences, rotated evaluations and pairs of independent implementations.
NO judgement here (Material.tla)."""
import warnings

import numpy as np

warnings.filterwarnings("ignore")

import jax  # noqa: E402

jax.config.update("jax_enable_x64", True)

import felupe as fem  # noqa: E402
import felupe.constitution.jax as fj  # noqa: E402
import felupe.constitution.jax.models.hyperelastic as jh  # noqa: E402
import felupe.constitution.tensortrax.models.hyperelastic as th  # noqa: E402
import felupe.constitution.jax.models.hyperelastic.microsphere as jms  # noqa: E402
import felupe.constitution.jax.models.lagrange as jl  # noqa: E402
import felupe.constitution.tensortrax.models.hyperelastic.microsphere as tms  # noqa: E402
import felupe.constitution.tensortrax.models.lagrange as tl  # noqa: E402

from .common import Out, args, q, qi  # noqa: E402
from .solverlib import fhex  # noqa: E402

S = 2 ** 20
SD = 2 ** 22
SK = 2 ** 18
H = 2.0 ** -6

# dyadic parameter sets (multiples of 1/16), one per model
PAR = dict(
    alexander=dict(C1=0.125, C2=0.125, C3=0.0625, gamma=0.75, k=0.0625),
    anssari_benam_bucchi=dict(mu=1.25, N=10.0),
    arruda_boyce=dict(C1=0.75, limit=2.0),
    blatz_ko=dict(mu=1.25),
    extended_tube=dict(Gc=0.1875, Ge=0.25, beta=0.25, delta=0.125),
    lopez_pamies=dict(mu=[1.0, 0.5], alpha=[1.25, -0.75]),
    miehe_goektepe_lulei=dict(mu=0.125, N=3.25, U=10.0, p=6.25, q=0.625),
    mooney_rivlin=dict(C10=0.3125, C01=0.75),
    neo_hooke=dict(mu=1.25),
    ogden=dict(mu=[0.75, 0.25], alpha=[1.75, -1.5]),
    saint_venant_kirchhoff=dict(mu=1.25, lmbda=2.0),
    saint_venant_kirchhoff_orthotropic=dict(mu=[1.0, 0.75, 0.625], lmbda=[1.0, 0.875, 0.75, 0.6875, 0.625, 0.5]),
    storakers=dict(mu=[0.75, 0.375], alpha=[2.0, -2.0], beta=[0.875, 0.9375]),
    third_order_deformation=dict(C10=0.5, C01=0.125, C11=0.0625, C20=-0.0625, C30=0.0625),
    van_der_waals=dict(mu=1.25, beta=0.125, a=0.5, limit=15.0),
    yeoh=dict(C10=0.5, C20=-0.0625, C30=0.0625),
)
ANISOTROPIC = {"saint_venant_kirchhoff_orthotropic"}
MICROSPHERE = {"miehe_goektepe_lulei"}
EIGEN_JAX = {"extended_tube", "storakers"}       # jax versions perturb C by 1e-4 before eigvalsh (documented regularisation)


def lattice_F(rng, n):
    out = []
    while len(out) < n:
        Z = rng.randint(-2, 3, size=(3, 3))
        F = np.eye(3) + Z / 8.0
        d = np.linalg.det(F)
        if not (0.6 <= d <= 1.7):
            continue
        lam = np.sqrt(np.linalg.eigvalsh(F.T @ F))
        if min(np.diff(lam)) < 0.08:
            continue
        out.append(F)
    return np.stack(out, axis=-1)[..., None]          # (3, 3, n, 1)


def pt(a):
    """(3,3,n,1) or (3,3,3,3,n,1) -> point-major flat"""
    a = np.asarray(a)
    k = a.ndim - 2
    return np.moveaxis(a.reshape(a.shape[:k] + (-1,)), -1, 0)


def models(tier):
    """name -> (umat, statevars array factory or None, class flags)"""
    M = {}

    def add(name, um, sv=None, hyper=True, iso=True, energy=False, key=None, tolscale=1, deriv=True):
        M[name] = dict(um=um, sv=sv, hyper=hyper, iso=iso, energy=energy, key=key, tolscale=tolscale, deriv=deriv)

    add("NeoHooke", fem.NeoHooke(mu=1.25, bulk=4.0), energy=True, key=("NeoHooke", dict(mu=1.25, bulk=4.0)))
    # (parameters are never 1: a factor applied twice or not at all must be visible) ; every optional part switched off once
    add("NeoHooke-nobulk", fem.NeoHooke(mu=1.25), energy=True)
    add("NeoHooke-nomu", fem.NeoHooke(mu=None, bulk=3.5), energy=True)
    add("NeoHookeCompressible", fem.NeoHookeCompressible(mu=1.25, lmbda=2.0), energy=True, key=("NeoHookeCompressible", dict(mu=1.25, lmbda=2.0)))
    add("NeoHookeCompressible-nolmbda", fem.NeoHookeCompressible(mu=1.25, lmbda=None), energy=True)
    # (NeoHookeCompressible(mu=None), although documented as the default, raises TypeError in every method: an unsupported call, not a case)
    add("Volumetric", fem.Volumetric(bulk=3.0), energy=True, key=("Volumetric", dict(bulk=3.0)))
    add("LinearElasticLargeStrain", fem.LinearElasticLargeStrain(E=2.0, nu=0.25), energy=False, key=("LinearElasticLargeStrain", dict(E=2.0)))
    add("OgdenRoxburgh-virgin", fem.OgdenRoxburgh(fem.NeoHooke(mu=1.25, bulk=4.0), r=3.0, m=0.75, beta=0.125),
        sv=lambda n: np.zeros((1, n, 1)), hyper=False)
    # (stored maximum energy well above the energy of every lattice state and its stencil: one branch)
    add("OgdenRoxburgh-loaded", fem.OgdenRoxburgh(fem.NeoHooke(mu=1.25, bulk=4.0), r=3.0, m=0.75, beta=0.125),
        sv=lambda n: np.full((1, n, 1), 6.0), hyper=False)
    for k, p in PAR.items():
        iso = k not in ANISOTROPIC
        add("tt." + k, fem.Hyperelastic(getattr(th, k), **p), iso=iso and k not in MICROSPHERE, key=(k, p))
        if hasattr(jh, k):
            add("jax." + k, fj.Hyperelastic(getattr(jh, k), **p), iso=iso and k not in MICROSPHERE, key=(k, p),
                tolscale=64 if k in EIGEN_JAX else 1)
    add("tt.ogden_roxburgh-loaded", fem.Hyperelastic(th.ogden_roxburgh, material=th.neo_hooke, mu=1.25, r=3.0, m=0.75, beta=0.125, nstatevars=1),
        sv=lambda n: np.full((1, n, 1), 6.0), hyper=False)
    add("tt.ogden_roxburgh-virgin", fem.Hyperelastic(th.ogden_roxburgh, material=th.neo_hooke, mu=1.25, r=3.0, m=0.75, beta=0.125, nstatevars=1),
        sv=lambda n: np.zeros((1, n, 1)), hyper=False)
    add("composite", fem.Hyperelastic(th.mooney_rivlin, C10=0.25, C01=0.5) & fem.Volumetric(bulk=4.0))
    add("tt.total_lagrange-svk", fem.MaterialAD(fem.total_lagrange(lambda F, mu, lmbda: _svk_S(F, mu, lmbda)), mu=1.25, lmbda=2.0)
        if hasattr(fem, "total_lagrange") else None)
    add("tt.updated_lagrange-neohooke", fem.MaterialAD(fem.updated_lagrange(_nh_cauchy), mu=1.25, lmbda=2.0))
    # (MORPH: Tresca-type invariants = max over eigenvalue differences; the active pair changes inside the stencil for some lattice
    #  states, so the stencil law is not issued; tangent = AD of the stress, twins compared in C12)
    add("tt.morph", fem.MaterialAD(tl.morph, p=[0.039, 0.371, 0.174, 2.41, 0.0094, 6.84, 5.65, 0.244], nstatevars=13),
        sv=lambda n: np.zeros((13, n, 1)), hyper=False, iso=False, deriv=False)
    # Seth-Hill generalisations of the Saint-Venant Kirchhoff models (principal-stretch branch), isotropic and orthotropic
    for k in (0, 1, -1):
        add("tt.saint_venant_kirchhoff-k%d" % k, fem.Hyperelastic(th.saint_venant_kirchhoff, k=k, **PAR["saint_venant_kirchhoff"]))
    # (the orthotropic version differentiates through the eigen-PROJECTIONS, whose higher derivatives grow like 1 / gap^n: the
    #  truncation error of the h = 2^-6 stencil at a stretch gap of 0.08 is ~64 times that of the smooth models)
    add("tt.saint_venant_kirchhoff_orthotropic-k0", fem.Hyperelastic(th.saint_venant_kirchhoff_orthotropic, k=0, **PAR["saint_venant_kirchhoff_orthotropic"]),
        iso=False, tolscale=64)
    # user models built on the affine micro-sphere frameworks (21-point rule: objective, only approximately isotropic)
    add("tt.microsphere-affine", fem.Hyperelastic(_affine(tms), mu=1.25), iso=False)
    add("jax.microsphere-affine", fj.Hyperelastic(_affine(jms), mu=1.25), iso=False)
    # remaining Lagrange-type models with state variables, both back-ends; finite-strain viscoelasticity
    MP = [0.039, 0.371, 0.174, 2.41, 0.0094, 6.84, 5.65, 0.244]
    add("jax.morph", fj.Material(jl.morph, p=MP, nstatevars=13), sv=lambda n: np.zeros((13, n, 1)), hyper=False, iso=False, deriv=False)
    if True:
        add("tt.morph_representative_directions", fem.MaterialAD(tl.morph_representative_directions, p=MP, nstatevars=84),
            sv=lambda n: np.zeros((84, n, 1)), hyper=False, iso=False, deriv=False)
        # (sums of 84 one-dimensional models with max / abs switches regularised by 1e-6: the branch pattern changes inside the
        #  h = 2^-6 stencil, so the stencil law is not issued for them -- their tangent is AD of the stress, the twins are compared in C12)
        add("jax.morph_representative_directions", fj.Material(jl.morph_representative_directions, p=MP, nstatevars=84),
            sv=lambda n: np.zeros((84, n, 1)), hyper=False, iso=False, deriv=False)
    add("tt.finite_strain_viscoelastic", fem.Hyperelastic(th.finite_strain_viscoelastic, mu=1.25, eta=2.0, dtime=0.5, nstatevars=6),
        sv=lambda n: np.tile(np.array([1.0, 0.0, 0.0, 1.0, 0.0, 1.0])[:, None, None], (1, n, 1)), hyper=False, iso=False)     # C_in = 1 (upper triangle)
    add("jax.total_lagrange-svk", fj.Material(fj.total_lagrange(_svk_S_jax), mu=1.25, lmbda=2.0))
    add("jax.updated_lagrange-neohooke", fj.Material(fj.updated_lagrange(_nh_cauchy_jax), mu=1.25, lmbda=2.0))
    return {k: v for k, v in M.items() if v["um"] is not None}


def _affine(ms):
    def fun(C, mu):
        return (ms.affine_stretch(C, f=lambda lam, mu: mu / 2 * (lam ** 2 - 1), kwargs=dict(mu=mu))
                + ms.affine_tube(C, f=lambda la, mu: mu / 4 * (la ** 2 - 1), kwargs=dict(mu=mu)))
    return fun


def _svk_S_jax(F, mu, lmbda):
    import jax.numpy as jnp
    E = (F.T @ F - jnp.eye(3)) / 2
    return 2 * mu * E + lmbda * jnp.trace(E) * jnp.eye(3)


def _nh_cauchy_jax(F, mu, lmbda):
    import jax.numpy as jnp
    J = jnp.linalg.det(F)
    return (mu * (F @ F.T - jnp.eye(3)) + lmbda * jnp.log(J) * jnp.eye(3)) / J


def _svk_S(F, mu, lmbda):
    import tensortrax.math as tm
    C = F.T @ F
    E = (C - tm.base.eye(C)) / 2
    return 2 * mu * E + lmbda * tm.trace(E) * tm.base.eye(C)


def _nh_cauchy(F, mu, lmbda):
    """compressible Neo-Hookean Cauchy stress  (mu (b - 1) + lmbda ln(J) 1) / J  for the updated-Lagrange wrapper"""
    import tensortrax.math as tm
    J = tm.linalg.det(F)
    b = F @ F.T
    one = tm.base.eye(b)
    return (mu * (b - one) + lmbda * tm.log(J) * one) / J


def grad(m, F, sv):
    return np.asarray(m["um"].gradient([F, sv])[0], dtype=float)


def hess(m, F, sv):
    return np.asarray(m["um"].hessian([F, sv])[0], dtype=float)


def directions(rng, quick):
    ds = []
    for (i, j) in ([(0, 0), (0, 1), (2, 1)] if quick else [(i, j) for i in range(3) for j in range(3)]):
        D = np.zeros((3, 3))
        D[i, j] = 1.0
        ds.append(("e%d%d" % (i, j), D))
    D = rng.randint(-1, 2, size=(3, 3)).astype(float)
    ds.append(("lattice", D))
    return ds


def c03(out, a):
    rng = np.random.RandomState(300 + a.seed)
    quick = a.tier == "quick"
    n = 6 if quick else 40
    F = lattice_F(rng, n)
    M = models(a.tier)
    for name, m in M.items():
        sv = m["sv"](n) if m["sv"] else None
        if name.endswith("-loaded"):
            # stored maximum energy per point: above the energy of the state and of its whole stencil (one branch: unloading), but close
            # enough for the softening function to be ACTIVE (its derivative enters the tangent)
            base = fem.NeoHooke(mu=1.25, bulk=4.0 if name.startswith("Ogden") else None)
            sv = (2.0 * np.asarray(base.function([F, None])[0], float) + 0.3).reshape(1, n, 1)
        for dname, D in directions(rng, quick):
            Db = D[:, :, None, None]
            rid = "deriv-%s-%s" % (name, dname)
            if m["deriv"] and out.want(rid):
                Ds = [grad(m, F + s * H * Db, sv) - grad(m, F - s * H * Db, sv) for s in (1, 2, 3)]
                AD = np.einsum("ijkl...,kl->ij...", hess(m, F, sv), D)
                out.write({"id": rid, "kind": "deriv", "nt": True, "clause": "ElastIsDP" if m["sv"] is None else "AlgorithmicTangent",
                           "tolscale": m["tolscale"], "modes": [], "D1": q(Ds[0], SD), "D2": q(Ds[1], SD), "D3": q(Ds[2], SD), "rhs": q(AD, SK)})
            rid = "energy-%s-%s" % (name, dname)
            if m["energy"] and out.want(rid):
                W = lambda X: np.asarray(m["um"].function([X, sv])[0], dtype=float)  # noqa: E731
                Ds = [W(F + s * H * Db) - W(F - s * H * Db) for s in (1, 2, 3)]
                PD = np.einsum("ij...,ij->...", grad(m, F, sv), D)
                out.write({"id": rid, "kind": "deriv", "nt": True, "clause": "StressIsDW", "tolscale": 1,
                           "modes": [], "D1": q(Ds[0], SD), "D2": q(Ds[1], SD), "D3": q(Ds[2], SD), "rhs": q(PD, SK)})
        # inputs untouched; reused output buffer where the model offers one
        rid = "noalias-" + name
        if out.want(rid):
            Fc = F.copy()
            svc = None if sv is None else sv.copy()
            before = fhex(Fc) + ([] if svc is None else fhex(svc))
            P1 = grad(m, Fc, svc)
            A1 = hess(m, Fc, svc)
            after = fhex(Fc) + ([] if svc is None else fhex(svc))
            P2 = grad(m, Fc, svc)
            # a caller-supplied output buffer (as the solid bodies pass) that still holds other values gives the same result
            try:
                import inspect
                if "out" in inspect.signature(m["um"].gradient).parameters:
                    P2 = np.asarray(m["um"].gradient([Fc, svc], out=np.full_like(P1, 7.0))[0], dtype=float)
            except (TypeError, ValueError):
                pass
            A2 = A1
            try:
                if "out" in inspect.signature(m["um"].hessian).parameters:
                    A2 = np.asarray(m["um"].hessian([Fc, svc], out=np.full_like(A1, 7.0))[0], dtype=float)
            except (TypeError, ValueError, NameError):
                pass
            out.write({"id": rid, "kind": "noalias", "nt": True, "before": before, "after": after, "fresh": fhex(P1) + fhex(A1),
                       "reused": fhex(P2) + fhex(A2)})
    kinematics(out, F, rng)
    # mixed (u, p, J) formulations: every returned block is the mixed second derivative (None = 0)
    p0 = rng.randint(-2, 3, size=(1, n, 1)) / 8.0
    J0 = 1 + rng.randint(-1, 2, size=(1, n, 1)) / 16.0
    for name, um in (("ThreeFieldVariation", fem.ThreeFieldVariation(fem.NeoHooke(mu=1.25, bulk=4.0))),
                     ("NearlyIncompressible", fem.NearlyIncompressible(fem.NeoHooke(mu=1.25), bulk=8.0)),
                     # user-supplied non-quadratic volumetric part U = bulk / 2 ln(J)^2 through the documented optional arguments
                     ("NearlyIncompressible-logU", fem.NearlyIncompressible(fem.NeoHooke(mu=1.25), bulk=8.0, dUdJ=lambda J, bulk: bulk * np.log(J) / J,
                                                                         d2UdJdJ=lambda J, bulk: bulk * (1 - np.log(J)) / J ** 2)),
                     ("ThreeFieldVariation-ad", fem.ThreeFieldVariation(fem.Hyperelastic(th.mooney_rivlin, C10=0.25, C01=0.5) & fem.Volumetric(bulk=4.0)))):
        D = rng.randint(-1, 2, size=(3, 3)).astype(float)

        def g(X, pp, JJ):
            r = um.gradient([X, pp, JJ, None])
            return [np.asarray(r[0], float), np.asarray(r[1], float), np.asarray(r[2], float)]

        Hs = um.hessian([F, p0, J0, None])
        blocks = {(0, 0): Hs[0], (0, 1): Hs[1], (0, 2): Hs[2], (1, 1): Hs[3], (1, 2): Hs[4], (2, 2): Hs[5]}
        var = [lambda s: (F + s * H * D[:, :, None, None], p0, J0), lambda s: (F, p0 + s * H, J0), lambda s: (F, p0, J0 + s * H)]
        for j in range(3):                        # differentiate with respect to variable j
            Ds = []
            for s in (1, 2, 3):
                gp, gm = g(*var[j](s)), g(*var[j](-s))
                Ds.append([a_ - b_ for a_, b_ in zip(gp, gm)])
            for i in range(3):                    # gradient entry i
                rid = "mixed-%s-d%d-d%d" % (name, i, j)
                if not out.want(rid):
                    continue
                B = blocks.get((min(i, j), max(i, j)))
                if B is None:
                    rhs = np.zeros_like(Ds[0][i])
                else:
                    B = np.asarray(B, float)
                    if i == 0 and j == 0:
                        rhs = np.einsum("ijkl...,kl->ij...", B, D)
                    elif i == 0:
                        rhs = B                                 # d P / d(p or J) * 1
                    elif j == 0:
                        rhs = np.einsum("kl...,kl->...", B, D)[None]     # d(dW/dp) / dF : D  (symmetric block)
                    else:
                        rhs = B
                out.write({"id": rid, "kind": "deriv", "nt": True, "clause": "MixedBlocks", "tolscale": 1, "modes": [],
                           "D1": q(Ds[0][i], SD), "D2": q(Ds[1][i], SD), "D3": q(Ds[2][i], SD), "rhs": q(rhs, SK)})
    # small-strain framework: linear elastic law and the return-mapping plasticity (algorithmic tangent), away from the yield surface
    for name, sy in (("MaterialStrain-elastic", 10.0), ("MaterialStrain-plastic", 0.0625), ("MaterialStrain-plastic-history", 0.0625)):
        um = fem.MaterialStrain(material=fem.constitution.linear_elastic_plastic_isotropic_hardening, λ=2.0, μ=1.5, σy=sy, K=0.25,
                                statevars=(1, (3, 3)))
        sv = np.zeros((28, n, 1))
        Fs = np.eye(3)[:, :, None, None] + (F - np.eye(3)[:, :, None, None]) / 2.0       # strains ~ 0.1: plastic for the small yield stress
        if name.endswith("history"):      # stored state of a previous, different plastic step (second plastic step from a non-virgin state)
            Fprev = np.eye(3)[:, :, None, None] - (F - np.eye(3)[:, :, None, None]) / 4.0
            sv = np.asarray(um.gradient([Fprev, sv.copy()])[1], float)
        for dname, D in directions(rng, True):
            rid = "deriv-%s-%s" % (name, dname)
            if out.want(rid):
                D = D / 8.0            # the return mapping is strongly curved (yield radius ~0.05): stay well inside one branch
                Db = D[:, :, None, None]
                gr = lambda X: np.asarray(um.gradient([X, sv.copy()])[0], float)  # noqa: E731
                # branch of the return mapping at every stencil evaluation: plastic iff the equivalent plastic strain grows
                mode = lambda X: qi((np.asarray(um.gradient([X, sv.copy()])[1], float)[0] > 0).astype(int))  # noqa: E731
                modes = [mode(Fs + s * H * Db) for s in (-3, -2, -1, 0, 1, 2, 3)]
                Ds = [gr(Fs + s * H * Db) - gr(Fs - s * H * Db) for s in (1, 2, 3)]
                AD = np.einsum("ijkl...,kl->ij...", np.asarray(um.hessian([Fs, sv.copy()])[0], float), D)
                out.write({"id": rid, "kind": "deriv", "nt": True, "clause": "AlgorithmicTangent", "tolscale": 1,
                           "modes": modes, "D1": q(Ds[0], SD), "D2": q(Ds[1], SD), "D3": q(Ds[2], SD), "rhs": q(AD, SK)})
    for name, um in (("LinearElastic", fem.LinearElastic(E=2.0, nu=0.25)), ("LinearElasticTensorNotation", fem.constitution.LinearElasticTensorNotation(E=2.0, nu=0.25)),
                     ("LinearElasticOrthotropic", fem.constitution.LinearElasticOrthotropic(E=[2.0, 1.5, 1.0], nu=[0.25, 0.125, 0.1875], G=[0.75, 0.5, 0.625])),
                     ("Laplace", fem.constitution.Laplace(multiplier=1.5))):
        for dname, D in directions(rng, True):
            rid = "deriv-%s-%s" % (name, dname)
            if out.want(rid):
                Db = D[:, :, None, None]
                gr = lambda X: np.asarray(um.gradient([X, None])[0], float)  # noqa: E731
                Ds = [gr(F + s * H * Db) - gr(F - s * H * Db) for s in (1, 2, 3)]
                Hh = np.asarray(um.hessian([F, None])[0], float)
                if Hh.shape[-2:] != F.shape[-2:]:
                    Hh = np.broadcast_to(Hh, Hh.shape[:4] + F.shape[-2:])
                AD = np.einsum("ijkl...,kl->ij...", Hh, D)
                out.write({"id": rid, "kind": "deriv", "nt": True, "clause": "ElastIsDP", "tolscale": 1,
                           "modes": [], "D1": q(Ds[0], SD), "D2": q(Ds[1], SD), "D3": q(Ds[2], SD), "rhs": q(AD, SK)})


def kinematics(out, F, rng):
    """kinematic quantities offered as function / gradient (/ hessian) triples: volume, area and line change"""
    D = rng.randint(-1, 2, size=(3, 3)).astype(float)
    Db = D[:, :, None, None]
    N = np.array([2.0, -1.0, 2.0]) / 3.0

    def rec(rid, clause, lo, hi_contracted):
        if out.want(rid):
            Ds = [lo(F + s * H * Db) - lo(F - s * H * Db) for s in (1, 2, 3)]
            out.write({"id": rid, "kind": "deriv", "nt": True, "clause": clause, "tolscale": 1, "modes": [],
                       "D1": q(Ds[0], SD), "D2": q(Ds[1], SD), "D3": q(Ds[2], SD), "rhs": q(hi_contracted, SK)})

    vc = fem.constitution.VolumeChange()
    rec("deriv-VolumeChange-function", "StressIsDW", lambda X: np.asarray(vc.function([X])[0], float),
        np.einsum("ij...,ij->...", np.asarray(vc.gradient([F])[0], float), D))
    rec("deriv-VolumeChange-gradient", "ElastIsDP", lambda X: np.asarray(vc.gradient([X])[0], float),
        np.einsum("ijkl...,kl->ij...", np.asarray(vc.hessian([F])[0], float), D))
    ac = fem.constitution.AreaChange()
    rec("deriv-AreaChange-function", "ElastIsDP", lambda X: np.asarray(ac.function([X])[0], float),
        np.einsum("ijkl...,kl->ij...", np.asarray(ac.gradient([F])[0], float), D))
    rec("deriv-AreaChange-function-N", "ElastIsDP", lambda X: np.asarray(ac.function([X], N)[0], float),
        np.einsum("ikl...,kl->i...", np.asarray(ac.gradient([F], N)[0], float), D))
    lc = fem.constitution.LineChange()
    rec("deriv-LineChange-function", "ElastIsDP", lambda X: np.asarray(lc.function([X])[0], float),
        np.einsum("ijkl...,kl->ij...", np.broadcast_to(np.asarray(lc.gradient([F])[0], float), (3, 3, 3, 3) + F.shape[-2:]), D))


ROTS = [(3, [[2, -1, 2], [2, 2, -1], [-1, 2, 2]]), (7, [[2, 3, 6], [3, -6, 2], [-6, -2, 3]]), (1, [[0, -1, 0], [1, 0, 0], [0, 0, 1]]),
        (9, [[1, -4, 8], [8, 4, 1], [-4, 7, 4]]), (1, [[0, 0, 1], [1, 0, 0], [0, 1, 0]])]


def c11(out, a):
    rng = np.random.RandomState(1100 + a.seed)
    quick = a.tier == "quick"
    n = 5 if quick else 30
    F = lattice_F(rng, n)
    I = np.eye(3)[:, :, None, None] * np.ones((1, 1, 1, 1))
    M = models(a.tier)
    rots = []
    for qd, N in ROTS:
        N = np.array(N)
        if abs(np.linalg.det(N / qd) - 1) > 1e-9:
            N = -N
        assert np.allclose(N @ N.T, qd * qd * np.eye(3))
        rots.append((qd, N))
    for name, m in M.items():
        sv = m["sv"](n) if m["sv"] else None
        ts = m["tolscale"]
        P = grad(m, F, sv)
        for k, (qd, N) in enumerate(rots if not quick else rots[:3]):
            Q = N / qd
            rid = "objective-%s-r%d" % (name, k)
            if out.want(rid):
                Pq = grad(m, np.einsum("ij,jk...->ik...", Q, F), sv)
                out.write({"id": rid, "kind": "objective", "nt": True, "q": int(qd), "N": [qi(row) for row in N], "tol": 8 * ts,
                           "P": q(pt(P), S), "Pq": q(pt(Pq), S)})
            rid = "isotropic-%s-r%d" % (name, k)
            if m["iso"] and out.want(rid):
                Pr = grad(m, np.einsum("ij...,kj->ik...", F, Q), sv)
                # the jax principal-stretch models perturb C by diag(0, -1e-4, 1e-4) before eigvalsh (documented regularisation): the
                # perturbation is not isotropic and shifts the stress by up to 1e-4 * |tangent| (<= 40): 4e-3 absolute
                out.write({"id": rid, "kind": "isotropic", "nt": True, "q": int(qd), "N": [qi(row) for row in N], "tol": 8 * ts * (16 if ts > 1 else 1),
                           "P": q(pt(P), S), "Pr": q(pt(Pr), S)})
        rid = "kirchhoff-" + name
        if out.want(rid):
            out.write({"id": rid, "kind": "kirchhoff", "nt": True, "tol": 8 * ts, "P": q(pt(P), S), "F8": qi(np.rint(pt(F) * 8))})
        rid = "stressfree-" + name
        if out.want(rid) and "loaded" not in name:
            sv0 = m["sv"](1) * 0 if m["sv"] else None
            out.write({"id": rid, "kind": "stressfree", "nt": True, "tol": 8 * max(ts, 4 if name.startswith("jax.") else 1) * (64 if name == "tt.van_der_waals" or name == "jax.van_der_waals" else 1),
                       "P0": q(grad(m, I, sv0), S)})
        rid = "majorsym-" + name
        if m["hyper"] and out.want(rid):
            out.write({"id": rid, "kind": "majorsym", "nt": True, "tol": 8 * ts, "A": q(pt(hess(m, F, sv)), S)})


def c12(out, a):
    rng = np.random.RandomState(1200 + a.seed)
    quick = a.tier == "quick"
    n = 5 if quick else 30
    F = lattice_F(rng, n)
    I = np.eye(3)[:, :, None, None] * np.ones((1, 1, 1, 1))
    M = models(a.tier)

    def agree(rid, ma, mb, sva=None, svb=None, tol=8, relbits=15, X=None):
        X = F if X is None else X
        for what, fn in (("AgreeStress", grad), ("AgreeElasticity", hess)):
            if out.want(rid + "-" + what):
                out.write({"id": rid + "-" + what, "kind": "agree", "nt": True, "clause": what, "tol": tol, "relbits": relbits,
                           "a": q(fn(ma, X, sva), S), "b": q(fn(mb, X, svb), S)})

    # jax <-> tensortrax namesakes (documented eigenvalue regularisation of the jax principal-stretch models: 1e-4)
    for k in PAR:
        if "jax." + k in M:
            reg = k in EIGEN_JAX
            agree("agree-jax-tt-" + k, M["jax." + k], M["tt." + k], tol=8 * (512 if reg else 1), relbits=9 if reg else 15)
    wrap = lambda um: dict(um=um)  # noqa: E731
    # hand-coded <-> automatic differentiation
    agree("agree-NeoHooke-ad", wrap(fem.NeoHooke(mu=1.25, bulk=4.0)), wrap(fem.Hyperelastic(th.neo_hooke, mu=1.25) & fem.Volumetric(bulk=4.0)))
    agree("agree-NeoHooke-jax", wrap(fem.NeoHooke(mu=1.25)), wrap(fj.Hyperelastic(jh.neo_hooke, mu=1.25)))
    sv = np.full((1, n, 1), 1.5)
    agree("agree-OgdenRoxburgh-ad", wrap(fem.OgdenRoxburgh(fem.NeoHooke(mu=1.25), r=3.0, m=0.75, beta=0.125)),
          wrap(fem.Hyperelastic(th.ogden_roxburgh, material=th.neo_hooke, mu=1.25, r=3.0, m=0.75, beta=0.125, nstatevars=1)), sva=sv, svb=sv)
    agree("agree-SVK-total-lagrange", wrap(fem.Hyperelastic(th.saint_venant_kirchhoff, mu=1.25, lmbda=2.0)), M["tt.total_lagrange-svk"]) \
        if "tt.total_lagrange-svk" in M else None
    # the same user model through both back-ends' wrappers and frameworks; Lagrange models with state variables in both back-ends
    agree("agree-total-lagrange-jax-tt", M["jax.total_lagrange-svk"], M["tt.total_lagrange-svk"])
    agree("agree-updated-lagrange-jax-tt", M["jax.updated_lagrange-neohooke"], M["tt.updated_lagrange-neohooke"])
    agree("agree-microsphere-affine-jax-tt", M["jax.microsphere-affine"], M["tt.microsphere-affine"])
    sv13 = np.zeros((13, n, 1))
    agree("agree-morph-jax-tt", M["jax.morph"], M["tt.morph"], sva=sv13, svb=sv13, tol=8 * 512, relbits=9)      # jax: 1e-4 eigenvalue regularisation
    if "jax.morph_representative_directions" in M:
        sv84 = np.zeros((84, n, 1))
        agree("agree-morph-rd-jax-tt", M["jax.morph_representative_directions"], M["tt.morph_representative_directions"], sva=sv84, svb=sv84)
    # ... and with a load history behind them: state variables of a previous, LARGER deformation (unloading state), same for both
    Fbig = np.eye(3)[:, :, None, None] + 2.0 * (F - np.eye(3)[:, :, None, None])
    for nm, nsv in (("morph_representative_directions", 84),):
        if "jax." + nm in M:
            svh = np.asarray(M["tt." + nm]["um"].gradient([Fbig, np.zeros((nsv, n, 1))])[1], float)
            # (not for the 3-d MORPH twins: the jax version perturbs its eigenvalue problems by diag(1e-4, -1e-4, 0) -- the regularisation
            #  of the jax principal-stretch models -- which on the small rate tensor of an unloading step shifts stress and tangent by
            #  several per cent; the representative-directions twins agree tightly)
            agree("agree-%s-history-jax-tt" % nm, M["jax." + nm], M["tt." + nm], sva=svh.copy(), svb=svh.copy(), tol=64)
    # linear elasticity: component-wise <-> tensor notation <-> small-strain framework
    le, lt = fem.LinearElastic(E=2.0, nu=0.25), fem.constitution.LinearElasticTensorNotation(E=2.0, nu=0.25)
    agree("agree-LinearElastic-tensor", wrap(le), wrap(lt))
    lam, mu = fem.constitution.lame_converter(2.0, 0.25)
    ms = fem.MaterialStrain(material=fem.constitution.linear_elastic, λ=lam, μ=mu)
    svm = np.zeros((18, n, 1))
    agree("agree-LinearElastic-smallstrain", wrap(le), wrap(ms), svb=svm)
    # orthotropic linear elasticity <-> orthotropic Saint-Venant Kirchhoff at the undeformed state via the Lame converter
    E3, nu3, G3 = [2.0, 1.5, 1.0], [0.25, 0.125, 0.1875], [0.75, 0.5, 0.625]
    lo = fem.constitution.LinearElasticOrthotropic(E=E3, nu=nu3, G=G3)
    lmb, muo = fem.constitution.lame_converter_orthotropic(E3, nu3, G3)
    so = fem.Hyperelastic(th.saint_venant_kirchhoff_orthotropic, mu=muo, lmbda=lmb)
    if out.want("agree-orthotropic-AgreeElasticity"):
        out.write({"id": "agree-orthotropic-AgreeElasticity", "kind": "agree", "nt": True, "clause": "AgreeElasticity", "tol": 8, "relbits": 15,
                   "a": q(np.asarray(lo.hessian([I, None])[0], float).reshape(81, -1)[:, 0], S), "b": q(hess(wrap(so), I, None), S)})
    # plane strain / plane stress <-> 3D law under the corresponding constraint
    for kind in ("strain", "stress"):
        rid = "agree-plane-%s" % kind
        if not out.want(rid + "-AgreeStress"):
            continue
        cls = fem.constitution.LinearElasticPlaneStrain if kind == "strain" else fem.constitution.LinearElasticPlaneStress
        u2 = cls(E=2.0, nu=0.25)
        H2 = rng.randint(-2, 3, size=(2, 2, n, 1)) / 16.0
        F2 = np.eye(2)[:, :, None, None] + H2
        s2 = np.asarray(u2.gradient([F2, None])[0], float)
        e2 = (H2 + np.einsum("ij...->ji...", H2)) / 2
        e3 = np.zeros((3, 3, n, 1))
        e3[:2, :2] = e2
        if kind == "stress":
            e3[2, 2] = -0.25 / (1 - 0.25) * (e2[0, 0] + e2[1, 1])        # sigma_33 = 0
        F3 = np.eye(3)[:, :, None, None] + e3
        s3 = np.asarray(le.gradient([F3, None])[0], float)
        out.write({"id": rid + "-AgreeStress", "kind": "agree", "nt": True, "clause": "AgreeStress", "tol": 8, "relbits": 15,
                   "a": q(s2[:2, :2], S), "b": q(s3[:2, :2], S)})
        # the full (3, 3) stress the 2-d classes report (out-of-plane stress nu (s11 + s22) in plane strain, zero in plane stress)
        if out.want(rid + "-full-AgreeStress"):
            out.attempt(rid + "-full-AgreeStress", lambda: {
                "id": rid + "-full-AgreeStress", "kind": "agree", "nt": True, "clause": "AgreeStress", "tol": 8, "relbits": 15,
                "a": q(np.asarray(u2.stress([F2, None])[0], float), S), "b": q(s3, S)})
        # elasticity: in-plane block of the 3-d tangent under the constraint (plane strain: C_abcd; plane stress: condensed)
        if out.want(rid + "-AgreeElasticity"):
            A2 = np.asarray(u2.hessian([F2, None])[0], float)
            A2 = np.broadcast_to(A2, A2.shape[:4] + (n, 1))
            C3 = np.asarray(le.hessian([F3, None])[0], float)
            C3 = np.broadcast_to(C3, C3.shape[:4] + (n, 1))
            if kind == "strain":
                ref = C3[:2, :2, :2, :2]
            else:       # static condensation of e33:  C_abcd - C_ab33 C_33cd / C_3333
                ref = C3[:2, :2, :2, :2] - np.einsum("ab...,cd...->abcd...", C3[:2, :2, 2, 2], C3[2, 2, :2, :2]) / C3[2, 2, 2, 2]
            out.write({"id": rid + "-AgreeElasticity", "kind": "agree", "nt": True, "clause": "AgreeElasticity", "tol": 8, "relbits": 15,
                       "a": q(A2, S), "b": q(ref, S)})
    # documented initial moduli
    keyed = [(nm, m) for nm, m in M.items() if m.get("key") and not nm.startswith("jax.")] + [(nm, m) for nm, m in M.items() if m.get("key") and nm.startswith("jax.")]
    for nm, m in keyed:
        model, p = m["key"]
        if model in ("saint_venant_kirchhoff_orthotropic", "miehe_goektepe_lulei"):
            continue                      # no isotropic closed form documented / micro-sphere integration
        rid = "moduli-" + nm
        if not out.want(rid):
            continue
        mm = m
        if model == "extended_tube":      # the documented closed form mu = Gc + Ge holds for delta = 0
            p = dict(p, delta=0.0)
            mm = dict(um=(fj.Hyperelastic(jh.extended_tube, **p) if nm.startswith("jax.") else fem.Hyperelastic(th.extended_tube, **p)))
        par = {k: (qi(np.rint(np.array(v) * 16)) if isinstance(v, list) else int(round(v * 16))) for k, v in p.items()}
        sv0 = None
        loose = model in ("van_der_waals",) or (nm.startswith("jax.") and model in EIGEN_JAX)
        out.write({"id": rid, "kind": "moduli", "nt": True, "model": model, "par": par, "tol": 8192 if loose else 64,          # (van der Waals: Im += 1e-4 in the code shifts the modulus by 0.3 %)
                   "A": q(pt(hess(mm, I, sv0)), S)})
    for nm, um, model, p in (("LinearElastic", le, "LinearElastic", dict(E=2.0)), ("LinearElasticTensorNotation", lt, "LinearElasticTensorNotation", dict(E=2.0))):
        rid = "moduli-" + nm
        if out.want(rid):
            A = np.asarray(um.hessian([I, None])[0], float)
            out.write({"id": rid, "kind": "moduli", "nt": True, "model": model, "par": {k: int(round(v * 16)) for k, v in p.items()}, "tol": 64,
                       "A": q(A.reshape(81, -1)[:, 0], S)})


def main():
    a = args()
    out = Out(a)
    which = dict(o.split("=", 1) for o in a.opt.split(";") if o).get("which", "c03")
    {"c03": c03, "c11": c11, "c12": c12}[which](out, a)
    out.close()


if __name__ == "__main__":
    main()
