"""C05 driver: logs points / normalised weights of every quadrature scheme.  NO judgement here."""
import numpy as np

import felupe as fem
import felupe.quadrature as fq

from .common import Out, args, q

S = 2 ** 28


def pts(x):
    return [q(p, S) for p in np.atleast_2d(x)]


def rule(rid, scheme, family, dim, deg, measure, mode):
    return {"id": rid, "kind": "rule", "nt": True, "family": family, "dim": dim, "deg": deg, "mode": mode,
            "n": int(len(scheme.weights)), "x": pts(scheme.points), "w": q(scheme.weights / measure, S)}


def main():
    a = args()
    out = Out(a)
    quick = a.tier == "quick"
    GL, GLB = fq.GaussLegendre, fq.GaussLegendreBoundary
    GLo, GLoB = fq.GaussLobatto, fq.GaussLobattoBoundary
    for order in range(0, 9):
        for dim in (1, 2, 3):
            for permute in (True, False):
                tag = "GL-o%d-d%d-%s" % (order, dim, "perm" if permute else "raw")
                s = GL(order=order, dim=dim, permute=permute)
                n1 = order + 1
                # complete monomial sets where affordable, axis/diagonal/extreme exponents beyond
                full = (n1 ** dim) * ((2 * n1) ** dim) <= (40000 if quick else 3000000)
                if permute or dim > 1:
                    out.write(rule(tag, s, "cube", dim, 2 * n1 - 1, 2.0 ** dim, "full" if full else "axisdiag"))
                s1 = GL(order=order, dim=1)
                out.write({"id": tag + "-tensor", "kind": "tensor", "nt": True, "dim": dim, "n": int(len(s.weights)),
                           "n1": int(len(s1.weights)), "expect1": order + 1,
                           "x": pts(s.points), "w": q(s.weights / 2.0 ** dim, S),
                           "x1": q(s1.points, S), "w1": q(s1.weights / 2.0, S)})
                if permute:
                    u = GL(order=order, dim=dim, permute=False)
                    out.write({"id": tag + "-permute", "kind": "permute", "nt": True, "n": int(len(s.weights)),
                               "x": pts(s.points), "w": q(s.weights / 2.0 ** dim, S),
                               "xu": pts(u.points), "wu": q(u.weights / 2.0 ** dim, S)})
                    Si = 2 ** 20
                    inv = s.inv()
                    out.write({"id": tag + "-inverse", "kind": "inverse", "nt": True, "n": int(len(s.weights)), "Si": Si,
                               "x": pts(s.points), "w": q(s.weights / 2.0 ** dim, S),
                               "xi": [q(p, Si) for p in inv.points], "wi": q(inv.weights / 2.0 ** dim, S)})
                if dim >= 2:
                    b = GLB(order=order, dim=dim, permute=permute)
                    base = GL(order=order, dim=dim - 1, permute=permute)
                    m = 2.0 ** (dim - 1)
                    out.write({"id": tag + "-boundary", "kind": "boundary", "nt": True, "dim": dim, "n": int(len(b.weights)),
                               "x": pts(b.points), "w": q(b.weights / m, S), "xb": pts(base.points), "wb": q(base.weights / m, S)})
    for order in range(0, 6):
        for dim in (1, 2, 3):
            tag = "GLo-o%d-d%d" % (order, dim)
            s = GLo(order=order, dim=dim)
            n1 = order + 2
            full = (n1 ** dim) * ((2 * n1) ** dim) <= (40000 if quick else 3000000)
            out.write(rule(tag, s, "cube", dim, 2 * n1 - 3, 2.0 ** dim, "full" if full else "axisdiag"))
            s1 = GLo(order=order, dim=1)
            out.write({"id": tag + "-tensor", "kind": "tensor", "nt": True, "dim": dim, "n": int(len(s.weights)),
                       "n1": int(len(s1.weights)), "expect1": order + 2,
                       "x": pts(s.points), "w": q(s.weights / 2.0 ** dim, S),
                       "x1": q(s1.points, S), "w1": q(s1.weights / 2.0, S)})
            if dim >= 2:
                b = GLoB(order=order, dim=dim)
                base = GLo(order=order, dim=dim - 1)
                m = 2.0 ** (dim - 1)
                out.write({"id": tag + "-boundary", "kind": "boundary", "nt": True, "dim": dim, "n": int(len(b.weights)),
                           "x": pts(b.points), "w": q(b.weights / m, S), "xb": pts(base.points), "wb": q(base.weights / m, S)})
    for order in (1, 2, 3, 5):
        out.write(rule("Triangle-o%d" % order, fq.Triangle(order=order), "tri", 2, order, 0.5, "full"))
        out.write(rule("Tetrahedron-o%d" % order, fq.Tetrahedron(order=order), "tet", 3, order, 1.0 / 6.0, "full"))
    out.write(rule("BazantOh-21", fq.BazantOh(n=21), "sphere", 3, 9, 1.0, "full"))
    out.close()


if __name__ == "__main__":
    main()
