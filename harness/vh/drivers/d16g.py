"""C16 driver, non-lattice part: Circle / Triangle / Lagrange generators and generic-angle
transformations, coordinates at 2^-20.  NO judgement here (MeshGen.tla)."""
import numpy as np

import felupe as fem

from .common import Out, args, q, qi

S = 2 ** 20
BASE = {"quad": "quad", "triangle": "triangle", "hexahedron": "hexahedron", "tetra": "tetra",
        "VTK_LAGRANGE_QUADRILATERAL": "quad", "VTK_LAGRANGE_HEXAHEDRON": "hexahedron"}


def cross2(u, v):
    return u[0] * v[1] - u[1] * v[0]


def measures(m):
    """2A / 6V per cell from the corner nodes (numpy; only used to pass the PARENT's values of a rigid motion)"""
    p = m.points
    out = []
    for c in m.cells:
        x = p[c]
        if BASE[m.cell_type] == "quad":
            out.append(cross2(x[2] - x[0], x[3] - x[1]))
        elif BASE[m.cell_type] == "triangle":
            out.append(cross2(x[1] - x[0], x[2] - x[0]))
        elif BASE[m.cell_type] == "tetra":
            out.append(np.linalg.det(np.array([x[1] - x[0], x[2] - x[0], x[3] - x[0]])))
        else:
            tets = [(0, 1, 2, 6), (0, 2, 3, 6), (0, 3, 7, 6), (0, 7, 4, 6), (0, 4, 5, 6), (0, 5, 1, 6)]
            out.append(sum(np.linalg.det(np.array([x[b] - x[a], x[d] - x[a], x[e] - x[a]])) for a, b, d, e in tets))
    return out


def rec(rid, m, expect=None, tol=256, rim=None, r2=None, parent=None):
    dim = m.points.shape[1]
    ncells = len(m.cells)
    return {"id": rid, "nt": True, "base": BASE[m.cell_type], "dim": dim, "pts": [q(x, S) for x in m.points], "cells": [qi(c) for c in m.cells],
            "eps": 8, "expect": -1 if expect is None else q(expect, S)[0], "tol": tol + 8 * ncells,
            "rim": qi(rim) if rim is not None else [], "r2": q(r2, S)[0] if r2 is not None else 0,
            "parentmeasure": q(measures(parent), S) if parent is not None else []}


def main():
    a = args()
    out = Out(a)
    thorough = a.tier == "thorough"
    for n in ((2, 3, 4) if not thorough else (2, 3, 4, 6)):
        for sections in ([0, 90, 180, 270], [0, 180], [0, 120, 240]):
            for radius in (1.0, 0.75):
                rid = "Circle-n%d-s%d-r%g" % (n, len(sections), radius)
                if not out.want(rid):
                    continue
                m = fem.Circle(radius=radius, n=n, sections=sections)
                r = np.linalg.norm(m.points, axis=1)
                rim = np.arange(m.npoints)[np.isclose(r, r.max())]
                out.write(rec(rid, m, rim=rim, r2=radius ** 2))
    tri = [((0, 0), (2, 0), (0.5, 1.5)), ((0, 0), (1, 0), (0, 1)), ((-1, -0.5), (1.25, 0), (0, 2))]
    for k, (A, B, C) in enumerate(tri):
        for n in (2, 3, 5):
            rid = "Triangle-%d-n%d" % (k, n)
            if out.want(rid):
                m = fem.mesh.Triangle(a=A, b=B, c=C, n=n)
                area2 = abs(cross2(np.subtract(B, A), np.subtract(C, A)))
                out.write(rec(rid, m, expect=area2))
    for order in (2, 3, 4):
        rid = "LagrangeQuad-o%d" % order
        if out.want(rid):
            m = fem.mesh.RectangleArbitraryOrderQuad(a=(0, 0), b=(2, 1), order=order)
            out.write(rec(rid, m, expect=2.0 * 2))
        rid = "LagrangeHex-o%d" % order
        if out.want(rid) and (order < 4 or thorough):
            m = fem.mesh.CubeArbitraryOrderHexahedron(a=(0, 0, 0), b=(2, 1, 1), order=order)
            out.write(rec(rid, m, expect=2.0 * 6))
    # generic angles / normals: rigid images keep every cell's measure and orientation
    base2 = fem.Rectangle(a=(0, 0), b=(2, 1), n=(3, 3))
    base3 = fem.Cube(a=(0, 0, 0), b=(2, 1, 1), n=(3, 2, 2))
    for ang in (30, 77, -45, 200):
        rid = "rotate-quad-%d" % ang
        if out.want(rid):
            out.write(rec(rid, base2.rotate(ang, axis=2), expect=4.0, parent=base2))
        for ax in (0, 1, 2):
            rid = "rotate-hex-%d-ax%d" % (ang, ax)
            if out.want(rid):
                out.write(rec(rid, base3.rotate(ang, axis=ax), expect=12.0, parent=base3))
            rid = "rotate-tet-%d-ax%d" % (ang, ax)
            if out.want(rid):
                t = base3.triangulate()
                out.write(rec(rid, t.rotate(ang, axis=ax), expect=12.0, parent=t))
    for nrm in ((1, 2, 0), (1, 1, 1), (0.3, -1, 2)):
        rid = "mirror-quad-%s" % "_".join(map(str, nrm))
        if out.want(rid):
            out.write(rec(rid, base2.mirror(normal=list(nrm)), expect=4.0))
        rid = "mirror-hex-%s" % "_".join(map(str, nrm))
        if out.want(rid):
            out.write(rec(rid, base3.mirror(normal=list(nrm)), expect=12.0))
        rid = "mirror-tri-%s" % "_".join(map(str, nrm))
        if out.want(rid):
            out.write(rec(rid, base2.triangulate().mirror(normal=list(nrm)), expect=4.0))
    # revolution by generic segments: V = nseg sin(dphi) int r dA (straight connecting lines)
    sec = fem.Rectangle(a=(0, 1), b=(2, 2), n=(3, 2))
    for n, phi in ((5, 180), (4, 90), (7, 360), (3, 50)):
        rid = "revolve-n%d-phi%d" % (n, phi)
        if out.want(rid):
            dphi = np.deg2rad(phi / (n - 1))
            V = (n - 1) * np.sin(dphi) * (2.0 * 1.0 * 1.5)
            out.write(rec(rid, sec.revolve(n=n, phi=phi, axis=0), expect=6 * V, tol=2048))
    # merging of NEAR-duplicate points (round-off noise far below the rounding tolerance 10^-decimals) through every entry point
    rng = np.random.RandomState(1600 + a.seed)
    for api in ("sweep", "function", "container-init", "container-method"):
        for dec in (4, 6):
            rid = "merge-%s-dec%d" % (api, dec)
            if not out.want(rid):
                continue
            A = fem.Rectangle(a=(0, 0), b=(1, 1), n=3)
            B = fem.Rectangle(a=(1, 0), b=(2, 0.5), n=(3, 2))
            B = fem.Mesh(B.points + rng.uniform(-1, 1, size=B.points.shape) * 10.0 ** (-dec - 3), B.cells, B.cell_type)
            cat = fem.mesh.concatenate([A, B])
            if api == "sweep":
                child = cat.merge_duplicate_points(decimals=dec)
            elif api == "function":
                child = fem.mesh.merge_duplicate_points(cat, decimals=dec)
            else:
                if api == "container-init":
                    c = fem.MeshContainer([A, B], merge=True, decimals=dec)
                else:
                    c = fem.MeshContainer([A, B])
                    c.merge_duplicate_points(decimals=dec)
                child = fem.Mesh(c.points, np.vstack([m_.cells for m_ in c.meshes]), "quad")
            out.write(rec(rid, child, expect=3.0, parent=cat))
    out.close()


if __name__ == "__main__":
    main()
