"""C17 driver: feeds batches of small integer tensors through felupe.math and logs inputs and outputs
as integers (outputs times a record scale S so that halves / thirds are integers).  NO judgement."""
import itertools

import numpy as np

import felupe.math as fm

from .common import Out, args, q, qi
from .solverlib import fhex


def T(a, d):
    """logged tensor: flat C order with the batch index last"""
    a = np.asarray(a)
    return {"v": qi(a), "nb": int(a.shape[-1]), "d": d}


def scaled(x, S):
    x = np.asarray(x, dtype=float) * S
    return qi(np.rint(x))


def main():
    a = args()
    out = Out(a)
    rng = np.random.RandomState(17 + a.seed)
    quick = a.tier == "quick"
    NB = 6 if quick else 24
    reps = 2 if quick else 8

    def rnd(shape, nb=NB, lo=-2, hi=3):
        return rng.randint(lo, hi, size=tuple(shape) + (nb,)).astype(float)

    def definition(rid, op, mode, d, A, B, res, on, S=1, extra=None):
        res = np.asarray(res, dtype=float)
        if res.ndim == on:           # no batch axis
            res = res[..., None]
        nbo = res.shape[-1]
        r = {"id": rid, "kind": "def", "nt": True, "op": op, "mode": list(mode), "d": d, "S": S, "A": T(A, d),
             "B": T(B, d) if B is not None else {"v": [], "nb": 1, "d": d}, "od": (res.shape[0] if on else d), "on": on, "nbo": int(nbo),
             "out": scaled(res, S)}
        if extra:
            r.update(extra)
        out.write(r)

    order_shape = lambda n, d: (d,) * n  # noqa: E731
    for rep in range(reps):
        for d in (1, 2, 3):
            tag = "d%d-r%d" % (d, rep)
            # products: every documented mode; second operand optionally broadcast (batch size one)
            prods = [("dot", m) for m in [(2, 2), (1, 1), (2, 1), (1, 2), (2, 3), (3, 2), (4, 1), (1, 4), (2, 4), (4, 2), (4, 4)]] + \
                    [("ddot", m) for m in [(2, 2), (2, 4), (4, 2), (2, 3), (3, 2), (4, 4)]] + [("dddot", (3, 3))]
            for op, mode in prods:
                for bc in (False, True):
                    rid = "%s-%d%d-%s-bc%d" % (op, mode[0], mode[1], tag, bc)
                    if not out.want(rid) or (d == 3 and sum(mode) >= 8 and quick and rep > 0) or (op == "dot" and mode == (4, 4) and d == 3 and bc):
                        continue
                    A = rnd(order_shape(mode[0], d))
                    B = rnd(order_shape(mode[1], d), nb=1 if bc else NB)
                    res = getattr(fm, op)(A, B, mode=mode)
                    on = {"dot": mode[0] + mode[1] - 2, "ddot": mode[0] + mode[1] - 4, "dddot": 0}[op]
                    definition(rid, op, mode, d, A, B, res, on)
            for mode in (1, 2):
                rid = "dya-%d-%s" % (mode, tag)
                if out.want(rid):
                    A, B = rnd(order_shape(mode, d)), rnd(order_shape(mode, d))
                    definition(rid, "dya", (mode,), d, A, B, fm.dya(A, B, mode=mode), 2 * mode)
            for op in ("cdya_ik", "cdya_il", "cdya"):
                rid = "%s-%s" % (op, tag)
                if out.want(rid):
                    A, B = rnd((d, d)), rnd((d, d))
                    definition(rid, op, (), d, A, B, getattr(fm, op)(A, B), 4, S=2 if op == "cdya" else 1)
            # component formulas
            A = rnd((d, d))
            for op, fn, on, S in (("det", fm.det, 0, 1), ("trace", fm.trace, 0, 1), ("cof", fm.cof, 2, 1), ("dev", fm.dev, 2, d),
                                  ("sym", fm.sym, 2, 2), ("transpose", fm.transpose, 2, 1)):
                rid = "%s-%s" % (op, tag)
                if out.want(rid):
                    definition(rid, op, (), d, A, None, fn(A), on, S=S)
            rid = "adj-%s" % tag
            if out.want(rid):
                Ai = A.copy()
                dt = fm.det(Ai)
                ok = dt != 0
                Ai = Ai[..., ok]
                if Ai.shape[-1]:
                    definition(rid, "adj", (), d, Ai, None, fm.inv(Ai) * fm.det(Ai), 2)
            rid = "majortranspose-%s" % tag
            if out.want(rid):
                A4 = rnd((d, d, d, d))
                definition(rid, "majortranspose", (), d, A4, None, fm.majortranspose(A4), 4)
            for strain in (False, True):
                rid = "tovoigt-%s-s%d" % (tag, strain)
                if out.want(rid):
                    As = rnd((d, d))
                    As = As + np.einsum("ij...->ji...", As)
                    res = fm.tovoigt(As, strain=strain)
                    r = {"id": rid, "kind": "def", "nt": True, "op": "tovoigt", "mode": [], "d": d, "S": 1, "A": T(As, d),
                         "B": {"v": [], "nb": 1, "d": d}, "od": int(res.shape[0]), "on": 1, "nbo": int(res.shape[-1]), "out": scaled(res, 1),
                         "strain": bool(strain)}
                    out.write(r)
            rid = "vonmises2-%s" % tag
            if out.want(rid) and d >= 2:
                As = rnd((d, d))
                As = As + np.einsum("ij...->ji...", As)
                definition(rid, "vonmises2", (), d, As, None, fm.equivalent_von_mises(As) ** 2, 0, S=6)
            rid = "inplane-%s" % tag
            if out.want(rid) and d == 3:
                As = rnd((3, 3))
                V = rnd((2, 3))
                res = fm.inplane(As, V)
                r = {"id": rid, "kind": "def", "nt": True, "op": "inplane", "mode": [], "d": 3, "S": 1, "A": T(As, 3), "B": T(V, 3),
                     "od": 2, "on": 2, "nbo": int(res.shape[-1]), "out": scaled(res, 1)}
                # B is (2, 3, nb): logged with d = 3 addressing: index <<a, i>> -> a * 3 + i
                out.write(r)
            if d == 3:
                rid = "cross-%s" % tag
                if out.want(rid):
                    u, v = rnd((3,)), rnd((3,))
                    definition(rid, "cross", (), 3, u, v, fm.cross(u, v), 1, extra={"od": 3})
            # unimodular matrices: exact inverse and batched solve
            rid = "inv-%s" % tag
            if out.want(rid) or out.want("solve-%s" % tag):
                Lm = np.tril(rng.randint(-2, 3, size=(d, d, NB)).transpose(2, 0, 1), -1) + np.eye(d)
                Um = np.triu(rng.randint(-2, 3, size=(d, d, NB)).transpose(2, 0, 1), 1) + np.eye(d)
                Au = np.einsum("nij,njk->ikn", Lm, Um)
                if out.want(rid):
                    res = fm.inv(Au)
                    out.write({"id": rid, "kind": "inv", "nt": True, "d": d, "S": 16, "A": T(Au, d), "od": d, "on": 2, "nbo": NB,
                               "out": scaled(res, 16)})
                rid = "solve-%s" % tag
                if out.want(rid):
                    bvec = rnd((d,))
                    x = fm.solve_nd(Au, bvec, n=1)
                    out.write({"id": rid, "kind": "solve", "nt": True, "d": d, "S": 16, "A": T(Au, d), "B": T(bvec, d), "nbo": NB,
                               "out": scaled(x, 16)})
            # flag variants and frame conditions
            A = rnd((d, d))
            As = A + np.einsum("ij...->ji...", A)
            As[0, 0] += 7
            for name, plain, variant, inp in (
                ("inv-sym", lambda: fm.inv(As), lambda: fm.inv(As, sym=True), As),
                ("inv-det", lambda: fm.inv(As), lambda: fm.inv(As, determinant=fm.det(As)), As),
                ("inv-out", lambda: fm.inv(As), lambda: fm.inv(As, out=np.full_like(As, 9.0)), As),
                ("inv-full0", lambda: fm.inv(As), lambda: fm.inv(As, full_output=True)[0], As),
                ("inv-full1", lambda: fm.det(As), lambda: fm.inv(As, full_output=True)[1], As),
                ("cof-sym", lambda: fm.cof(As), lambda: fm.cof(As, sym=True), As),
                ("cof-out", lambda: fm.cof(As), lambda: fm.cof(As, out=np.full_like(As, 9.0)), As),
                ("det-out", lambda: fm.det(A), lambda: fm.det(A, out=np.full(A.shape[2:], 9.0)), A),
                ("dev-out", lambda: fm.dev(A), lambda: fm.dev(A, out=np.full_like(A, 9.0)), A),
                ("sym-out", lambda: fm.sym(A), lambda: fm.sym(A, out=np.full_like(A, 9.0)), A),
                ("trace-out", lambda: fm.trace(A), lambda: fm.trace(A, out=np.full(A.shape[2:], 9.0)), A),
                ("dot-parallel", lambda: fm.dot(A, As), lambda: fm.dot(A, As, parallel=True), A),
                ("ddot-parallel", lambda: fm.ddot(A, As), lambda: fm.ddot(A, As, parallel=True), A),
                ("dya-parallel", lambda: fm.dya(A, As), lambda: fm.dya(A, As, parallel=True), A),
                ("cdya-parallel", lambda: fm.cdya(A, As), lambda: fm.cdya(A, As, parallel=True), A),
                ("cdya-out", lambda: fm.cdya(A, As), lambda: fm.cdya(A, As, out=np.full((d, d, d, d, NB), 9.0)), A),
            ):
                rid = "same-%s-%s" % (name, tag)
                if out.want(rid):
                    before = fhex(inp)
                    p = plain()
                    v = variant()
                    out.write({"id": rid, "kind": "same", "nt": True, "out": fhex(p), "alt": fhex(v), "before": before, "after": fhex(inp)})
            # a correctly shaped REUSED buffer gives the same values as a fresh one
            rid = "same-inv-reused-%s" % tag
            if out.want(rid):
                buf = np.zeros_like(As)
                first = fm.inv(As, out=buf).copy()
                A2 = As + 1.0
                second = fm.inv(A2, out=buf)
                out.write({"id": rid, "kind": "same", "nt": True, "out": fhex(fm.inv(A2)), "alt": fhex(second), "before": fhex(first),
                           "after": fhex(fm.inv(As))})
            # eigen-decompositions
            rid = "eigh-%s" % tag
            if out.want(rid) and d >= 2:
                Ae = rnd((d, d))
                Ae = Ae + np.einsum("ij...->ji...", Ae)
                w, v = fm.eigh(Ae)
                S = 2 ** 20
                out.write({"id": rid, "kind": "eig", "nt": True, "symmetric": True, "d": d, "S": S, "A": T(Ae, d), "nbo": NB,
                           "val": q(w, S), "vec": q(v, S)})
            # general (non-symmetric) eigen-decomposition: A = V diag(lambda) V^-1 with unimodular integer V, distinct integer spectrum;
            # the returned vectors must be RIGHT eigenvectors (A v = lambda v)
            rid = "eig-%s" % tag
            if out.want(rid) and d >= 2:
                An = np.zeros((d, d, NB))
                for b_ in range(NB):
                    Lm = np.tril(rng.randint(-1, 2, size=(d, d)), -1) + np.eye(d)
                    Um = np.triu(rng.randint(-1, 2, size=(d, d)), 1) + np.eye(d)
                    V = Lm @ Um
                    lam = rng.choice(np.arange(-4, 5), size=d, replace=False).astype(float)
                    An[:, :, b_] = V @ np.diag(lam) @ np.linalg.inv(V)
                An = np.rint(An)
                w, v = fm.eig(An)
                S = 2 ** 20
                out.write({"id": rid, "kind": "eig", "nt": True, "symmetric": False, "d": d, "S": S, "A": T(An, d), "nbo": NB,
                           "val": q(np.real(w), S), "vec": q(np.real(v), S)})
            # eigenvalues with principal shear values (integer spectra: diagonal matrices conjugated by a signed permutation)
            rid = "eigshear-%s" % tag
            if out.want(rid) and d >= 2:
                lam = np.sort(rng.randint(-4, 5, size=(d, NB)), axis=0).astype(float)
                perm = rng.permutation(d)
                Ad = np.zeros((d, d, NB))
                for k_ in range(d):
                    Ad[perm[k_], perm[k_]] = lam[k_]
                res = fm.eigvalsh(Ad, shear=True)
                out.write({"id": rid, "kind": "eigshear", "nt": True, "d": d, "nbo": NB, "val": scaled(fm.eigvalsh(Ad), 1), "out": scaled(res, 1)})
    # rotation matrices
    S = 2 ** 20
    for dim in (2, 3):
        for axis in range(3 if dim == 3 else 1):
            for ang in (0, 30, 45, 90, 135, 180, -60, 270, 333):
                rid = "rotation-d%d-ax%d-%d" % (dim, axis, ang)
                if out.want(rid):
                    R = fm.rotation_matrix(ang, dim=dim, axis=axis)
                    out.write({"id": rid, "kind": "rotation", "nt": ang != 0, "d": dim, "axis": axis, "S": S, "out": q(R, S),
                               "cos": q(np.cos(np.deg2rad(ang)), S)[0], "sin": q(np.sin(np.deg2rad(ang)), S)[0]})
    # Seth-Hill strains at integer stretches, linsteps
    for k in (2, 1, -1, -2):
        rid = "sethhill-k%d" % k
        if out.want(rid):
            st = np.array([1.0, 2.0, 4.0])
            out.write({"id": rid, "kind": "sethhill", "nt": True, "k": k, "S": 64, "stretch": qi(st), "out": scaled(fm.strain_stretch_1d(st, k=k), 64)})
    for pts, num in (([0, 1, 3], 4), ([2, -2], 8), ([0, 1, 0, -1], 2), ([5], 3)):
        rid = "linsteps-%s-%d" % ("_".join(map(str, pts)), num)
        if out.want(rid) and len(pts) > 1:
            out.write({"id": rid, "kind": "linsteps", "nt": True, "points": pts, "num": num, "S": 64, "out": scaled(fm.linsteps(pts, num=num), 64)})
    for pts, num in (([0, 1, 3], 4), ([2, -2], 8)):
        rid = "linstepsopen-%s-%d" % ("_".join(map(str, pts)), num)
        if out.want(rid):
            out.write({"id": rid, "kind": "linstepsopen", "nt": True, "points": pts, "num": num, "S": 64,
                       "out": scaled(fm.linsteps(pts, num=num, endpoint=False), 64)})
        for axis, axes, values in ((0, 2, [0, 3]), (1, 3, [2, 0, -1]), (2, None, [1, 1, 0])):
            rid = "linstepstable-%s-%d-ax%d" % ("_".join(map(str, pts)), num, axis)
            if out.want(rid):
                kw = {} if axes is None else {"axes": axes}
                res = fm.linsteps(pts, num=num, axis=axis, values=np.array(values, float)[: (axes or axis + 1)], **kw)
                out.write({"id": rid, "kind": "linstepstable", "nt": True, "axis": axis, "axes": int(res.shape[1]), "S": 64,
                           "values": [int(v) for v in values[: res.shape[1]]], "seq": scaled(fm.linsteps(pts, num=num), 64), "out": scaled(res, 64)})
    out.close()


if __name__ == "__main__":
    main()
