"""Shared pieces of the solver-stack drivers (C07, C15, C20): scripted items that realise a
spec-issued outcome oracle inside the real newtonrhapson / Step / Job code, real problem builders,
and float logging helpers.  NO pass/fail logic."""
import math
import struct
import warnings

import numpy as np
from scipy.sparse import csr_matrix, identity

warnings.filterwarnings("ignore")

import felupe as fem  # noqa: E402
from felupe.mechanics._helpers import Assemble, Results  # noqa: E402

from .. import tracer  # noqa: E402


def fhex(a):
    """bit-exact logging of float64 arrays (TLC compares the strings)"""
    return [struct.pack(">d", float(v)).hex() for v in np.asarray(a, dtype=float).ravel()]


def fp(v):
    """positive float as <<mantissa (24 bit), exponent>> : v = m * 2^e ; zero -> <<0, -2000>>"""
    v = float(v)
    if not np.isfinite(v):
        return [-1, 0]
    if v <= 0:
        return [0, -2000]
    m, e = math.frexp(v)           # v = m * 2^e, 0.5 <= m < 1
    return [int(m * 2 ** 24), e - 24]


class Oracle:
    """the outcome script of one run: one token per check() call"""

    def __init__(self, tokens):
        self.tokens = list(tokens)
        self.pos = 0

    def next(self):
        t = self.tokens[self.pos] if self.pos < len(self.tokens) else "cont"
        self.pos += 1
        return t


class ScriptedItem:
    """Ramped, stateless item.  Its residual realises the oracle token of the coming check():
    'conv' -> 0, 'cont' -> 1 on every unknown, 'nan' -> NaN.  Its matrix is the identity."""

    def __init__(self, field, oracle):
        self.field = field
        self.oracle = oracle
        self.n = int(sum(field.fieldsizes))
        self.calls = 0
        self.value = None
        self.results = Results()
        self.assemble = Assemble(vector=self._vector, matrix=self._matrix)

    def update(self, value):
        self.value = value
        self.calls = 0

    def _vector(self, field=None, parallel=False):
        if field is not None:
            self.field = field
        first = self.calls == 0
        self.calls += 1
        if first:          # residual at the start iterate: no check() follows
            r = np.zeros(self.n)
        else:
            t = self.oracle.next()
            r = {"conv": np.zeros(self.n), "cont": np.ones(self.n), "nan": np.full(self.n, np.nan)}[t]
        return csr_matrix(r.reshape(-1, 1))

    def _matrix(self, field=None, parallel=False):
        return identity(self.n, format="csr")


class StateItem:
    """Stateful item with zero residual: every vector assembly produces a new trial state
    (a counter), committed only through the real Results.update_statevars()."""

    def __init__(self, field):
        self.field = field
        self.n = int(sum(field.fieldsizes))
        self.counter = 0
        self.history = []
        self.results = Results()
        self.results.statevars = np.array([0.0])
        self.assemble = Assemble(vector=self._vector, matrix=self._matrix)

    def _vector(self, field=None, parallel=False):
        if field is not None:
            self.field = field
        self.counter += 1
        self.results._statevars = np.array([float(self.counter)])
        self.history.append(self.counter)
        return csr_matrix((self.n, 1))

    def _matrix(self, field=None, parallel=False):
        return csr_matrix((self.n, self.n))


def small_field(n=2):
    mesh = fem.Cube(n=n)
    region = fem.RegionHexahedron(mesh)
    return fem.FieldContainer([fem.Field(region, dim=3)])
