"""C15 driver: (a) TLC behaviours of SolverMC (failing substeps at every position) replayed with
scripted items, traced; (b) real jobs with history-dependent materials on the ramps exported by
HistoryMC (every level sequence up to the bound), logging per converged substep the history
variables and the base-material quantities.  NO judgement here."""
import copy
import json
import os

import numpy as np

from . import solverlib as sl
from .solverlib import fhex  # noqa: E402
from .common import Out, args, q
from .d07 import TraceOut, replay
from .solverlib import fem, tracer

tracer.install()
S = 2 ** 20


def field3(n=3):
    mesh = fem.Cube(n=n)
    region = fem.RegionHexahedron(mesh)
    return fem.FieldContainer([fem.Field(region, dim=3)])


def run_ramp(tid, levels, scale, make, tout, per_substep):
    """one real job on a ramp of load levels, traced; per_substep(i, field, solid, sv_before) logs"""
    field = field3()
    solid, base = make(field)
    bounds, lc = fem.dof.uniaxial(field, clamped=True)
    ramp = np.array([scale(lv) for lv in levels], dtype=float)
    state = {"sv": copy.deepcopy(solid.results.statevars)}

    def cb(j, i, res):
        per_substep(i, field, solid, base, state["sv"])
        state["sv"] = copy.deepcopy(solid.results.statevars)

    step = fem.Step(items=[solid], ramp={bounds["move"]: ramp}, boundaries=bounds)
    tracer.begin(tid)
    try:
        fem.Job(steps=[step], callback=cb).evaluate(verbose=0, maxiter=25)
    except ValueError:
        pass
    tracer.end()
    tout.flush()
    return field


def main():
    a = args()
    opts = dict(o.split("=", 1) for o in a.opt.split(";") if o)
    tout = TraceOut(a.out, a.shards, a.only_ids)
    a2 = copy.copy(a)
    a2.out = a.out + "-laws"
    laws = Out(a2)
    with open(opts["cases"]) as f:
        ramps = json.load(f)["ramps"]

    # ---------------------------------------------------------------- pseudo-elastic softening
    def make_or(kind):
        def mk(field):
            if kind == "hand":
                base = fem.NeoHooke(mu=1.25, bulk=5.0)
                umat = fem.OgdenRoxburgh(base, r=3, m=0.75, beta=0.125)
            else:
                # softening acts on the distortional part; the volumetric part is added unchanged
                base = fem.Hyperelastic(fem.neo_hooke, mu=1.25)
                umat = fem.Hyperelastic(fem.ogden_roxburgh, material=fem.neo_hooke, r=3, m=0.75, beta=0.125, mu=1.25, nstatevars=1)
                return fem.SolidBody(umat & fem.Volumetric(bulk=5.0), field), (umat, base)
            return fem.SolidBody(umat, field), (umat, base)
        return mk

    for kind in ("hand", "ad"):
        for levels in ramps:
            rid = "or-%s-%s" % (kind, "".join(map(str, levels)))
            if not (laws.want(rid) or tout.want(rid)):
                continue
            rec = {"id": rid, "kind": "or", "nt": len(set(levels)) > 1, "levels": levels, "S": S, "utol": 16,
                   "W": [], "Wmax": [], "P": [], "Pb": [], "u": []}

            def log(i, field, solid, ub, svb, rec=rec, kind=kind):
                umat, base = ub
                F = field.extract()[0]
                if kind == "hand":
                    W = base.function([F, None])[0]
                    Pb = base.gradient([F, None])[0]
                    P = umat.gradient([F, svb])[0]
                    wmax = solid.results.statevars[0]
                else:
                    # stresses of the distortional parts (softened / base); energy of the same base model
                    W = fem.NeoHooke(mu=1.25).function([F, None])[0]
                    Pb = base.gradient([F, None])[0]
                    P = umat.gradient([F, svb])[0]
                    wmax = solid.results.statevars[0]
                nq = W.size
                rec["nq"] = int(nq)
                rec["W"].append(q(W.ravel(), S))
                rec["Wmax"].append(q(np.asarray(wmax).ravel(), S))
                rec["P"].append(q(np.moveaxis(P.reshape(9, -1), 0, -1), S))
                rec["Pb"].append(q(np.moveaxis(Pb.reshape(9, -1), 0, -1), S))
                rec["u"].append(q(field[0].values, S))

            run_ramp(rid, levels, lambda lv: 0.15 * lv, make_or(kind), tout, log)
            if len(rec["W"]) == len(levels):
                rec["nt"] = any(levels[n] < max(levels[:n]) for n in range(1, len(levels)))   # non-trivial: contains unloading
                laws.write(rec)

    # ---------------------------------------------------------------- plasticity
    sy, K = 0.02, 0.1

    def make_pl(field):
        umat = fem.MaterialStrain(material=fem.constitution.linear_elastic_plastic_isotropic_hardening,
                                  λ=2.0, μ=1.0, σy=sy, K=K, statevars=(1, (3, 3)))
        return fem.SolidBody(umat, field), (umat, None)

    for levels in ramps:
        rid = "pl-%s" % "".join(map(str, levels))
        if not (laws.want(rid) or tout.want(rid)):
            continue
        rec = {"id": rid, "kind": "pl", "nt": True, "levels": levels, "S": S, "sy": q(sy, S)[0], "K": q(K, S)[0],
               "ytol": 4096, "alpha": [], "sig": []}

        def logp(i, field, solid, ub, svb, rec=rec):
            sv = solid.results.statevars              # rows: alpha(1), eps_p(9), strain(9), stress(9)
            rec["nq"] = int(sv[0].size)
            rec["alpha"].append(q(sv[0].ravel(), S))
            rec["sig"].append(q(np.moveaxis(sv[19:28].reshape(9, -1), 0, -1), S))

        run_ramp(rid, levels, lambda lv: 0.02 * (lv - 2) + 0.005, make_pl, tout, logp)
        if len(rec["alpha"]) == len(levels):
            rec["nt"] = bool(max(max(al) for al in rec["alpha"]) > 0)      # non-trivial: plastic flow occurred
            laws.write(rec)

    # ---------------------------------------------------------------- elastic path independence
    def make_el(field):
        return fem.SolidBody(fem.NeoHooke(mu=1.25, bulk=5.0), field), (None, None)

    runs = []
    for levels in ramps:
        rid = "el-%s" % "".join(map(str, levels))
        if a.only_ids is not None and not (laws.want("el-all") or tout.want(rid)):
            continue
        field = run_ramp(rid, levels, lambda lv: 0.15 * lv, make_el, tout, lambda *x: None)
        runs.append({"last": int(levels[-1]), "u": q(field[0].values, S)})
    if runs:
        laws.write({"id": "el-all", "kind": "el", "nt": True, "utol": 16, "runs": runs})

    # ---------------------------------------------------------------- vector-valued ramp tables, the same step evaluated repeatedly
    # a boundary is ramped with one ROW of a 2-d table per substep (a value per prescribed unknown); the same Step object is used
    # twice in one job and the job is evaluated twice: every pass must apply row i in substep i (compared with a copy of the table
    # taken before the first evaluation)
    rid = "ramp-table-rows"
    if laws.want(rid):
        field = field3(2)
        solid = fem.SolidBody(fem.NeoHooke(mu=1.25, bulk=5.0), field)
        bounds = fem.dof.symmetry(field[0])
        right = fem.Boundary(field[0], fx=1.0, skip=(0, 1, 1))
        bounds["right"] = right
        nrow = int(right.dof.size)
        table = np.array([[0.0625 * (s + 1) + 0.015625 * k for k in range(nrow)] for s in range(3)])
        original = table.copy()
        step = fem.Step(items=[solid], ramp={right: table}, boundaries=bounds)
        applied = []
        job = fem.Job(steps=[step, step], callback=lambda j, i, res: applied.append(fhex(res.x[0].values.ravel()[right.dof])))
        tracer.begin(rid)
        job.evaluate(verbose=0, maxiter=25)
        job.evaluate(verbose=0, maxiter=25)
        tracer.end()
        tout.flush()
        laws.write({"id": rid, "kind": "ramptable", "nt": True, "applied": applied, "rows": [fhex(r_) for r_ in original], "nsub": 3})

    # ---------------------------------------------------------------- replay of model behaviours
    bf = opts.get("behaviours")
    if bf and os.path.exists(bf):
        maxiter = int(opts.get("maxiter", "2"))
        with open(bf) as f:
            lines = sorted({ln.strip().strip('"') for ln in f if "BEHAVIOUR|" in ln})
        for n, ln in enumerate(lines):
            replay(n, ln, maxiter, tout, prefix="h")
    tout.close()
    laws.close()


if __name__ == "__main__":
    main()
