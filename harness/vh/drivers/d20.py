"""C20 driver: writes meshes / job results / saved results with the real API, reads them back with
meshio and logs both sides.  Jobs are traced (SolverTrace.tla validates the frame protocol); the
file contents go to FileIO.tla.  NO judgement here."""
import copy
import os

import numpy as np

from . import solverlib as sl
from .common import Out, args, q, qi
from .d07 import TraceOut
from .solverlib import fem, fhex, tracer

tracer.install()
S = 2 ** 20


def roundtrips(out, tier):
    meshes = {
        "line": lambda: fem.mesh.Line(n=4),
        "quad": lambda: fem.Rectangle(a=(0, 0.25), b=(1.5, 1), n=(3, 4)),
        "quad8": lambda: fem.Rectangle(n=3).add_midpoints_edges(),
        "quad9": lambda: fem.Rectangle(n=3).convert(2, True, True),
        "triangle": lambda: fem.Rectangle(n=3).triangulate(),
        "triangle6": lambda: fem.Rectangle(n=3).triangulate().add_midpoints_edges(),
        "hexahedron": lambda: fem.Cube(a=(0, 0, 0.125), b=(1, 2, 1), n=(2, 3, 3)),
        "hexahedron20": lambda: fem.Cube(n=3).add_midpoints_edges(),
        "hexahedron27": lambda: fem.Cube(n=3).convert(2, True, True, True),
        "tetra": lambda: fem.Cube(n=3).triangulate(),
        "tetra10": lambda: fem.Cube(n=3).triangulate().add_midpoints_edges(),
        "VTK_LAGRANGE_QUADRILATERAL": lambda: fem.mesh.RectangleArbitraryOrderQuad(order=3),
        "VTK_LAGRANGE_HEXAHEDRON": lambda: fem.mesh.CubeArbitraryOrderHexahedron(order=3),
    }
    rng = np.random.RandomState(5)
    for name, mk in meshes.items():
        for ext in ("vtk", "vtu", "xdmf"):
            if name.startswith("VTK_LAGRANGE") and ext == "xdmf":
                continue          # meshio's XDMF writer has no Lagrange cell types
            rid = "roundtrip-%s-%s" % (name, ext)
            if not out.want(rid):
                continue
            m = mk()
            # irregular (but exactly representable) coordinates so that a permuted point array is visible
            m = fem.Mesh(m.points + rng.randint(-8, 9, size=m.points.shape) / 1024.0, m.cells, m.cell_type)
            fn = "rt_%s.%s" % (name, ext)
            m.write(fn)
            c = fem.mesh.read(fn)
            cc = fem.mesh.read(fn, dim=m.points.shape[1])
            r = c.meshes[0]
            out.write({"id": rid, "kind": "roundtrip", "nt": True, "npoints": int(m.npoints), "dim": int(m.points.shape[1]),
                       "pw": fhex(m.points), "pr": fhex(r.points), "pc": fhex(cc.meshes[0].points),
                       "cw": qi(m.cells), "cr": qi(r.cells), "tw": str(m.cell_type), "tr": str(r.cell_type),
                       "nblocks": len(c.meshes)})
            for f in os.listdir("."):
                if f.startswith("rt_"):
                    os.remove(f)


def shared(out):
    import meshio
    quad = fem.Rectangle(n=3)
    tri = fem.Rectangle(a=(1, 0), b=(2, 1), n=3).triangulate()
    pts = np.vstack([quad.points, tri.points])
    for ext in ("vtk", "vtu", "xdmf"):
        rid = "shared-%s" % ext
        if not out.want(rid):
            continue
        fn = "sh." + ext
        meshio.Mesh(np.pad(pts, ((0, 0), (0, 1))), [("quad", quad.cells), ("triangle", tri.cells + quad.npoints)]).write(fn)
        for merge in (True, False):
            c = fem.mesh.read(fn, merge=merge, dim=2)
            ids = {}
            name = lambda o: ids.setdefault(id(o), len(ids) + 1)  # noqa: E731
            cont = name(c.points)
            out.write({"id": rid + ("-merge" if merge else "-nomerge"), "kind": "shared", "nt": True,
                       "container": cont, "objs": [name(m.points) for m in c.meshes]})
        for f in os.listdir("."):
            if f.startswith("sh."):
                os.remove(f)


def read_frames(fn):
    import meshio
    times, us, cds, pds = [], [], [], []
    with meshio.xdmf.TimeSeriesReader(fn) as reader:
        reader.read_points_cells()
        for k in range(reader.num_steps):
            t, pd, cd = reader.read_data(k)
            times.append(int(round(float(t))))
            us.append(pd.get("Displacement"))
            pds.append(pd)
            cds.append(cd)
    return times, us, cds, pds


def logstrain_independent(F):
    """quadrature-point logarithmic strain from an eigen-decomposition of C = F^T F (numpy only)"""
    Fm = np.moveaxis(F.reshape(3, 3, -1), -1, 0)
    C = np.einsum("nki,nkj->nij", Fm, Fm)
    w, v = np.linalg.eigh(C)
    e = 0.5 * np.log(w)
    E = np.einsum("na,nia,nja->nij", e, v, v)
    shape = F.shape[2:]
    return e.T.reshape(3, *shape), np.moveaxis(E, 0, -1).reshape(3, 3, *shape)


def real_job(out, tout, name, make, ramp, fail=False, custom=False, pdd=True, cdd=True):
    rid = "frames-" + name
    if not (out.want(rid) or tout.want(rid)):
        return
    field, items, bounds = make()
    cbu, cbcd, cbpd = [], [], []

    def cb(j, i, res):
        cbu.append(fhex(fem.math.displacement(res.x, dim=3)))
        F = res.x.extract()[0]
        e, E = logstrain_independent(F)
        # strain-like Voigt storage: off-diagonal (shear) entries doubled, as documented for math.strain(asvoigt=True)
        voigt = np.array([E[0, 0], E[1, 1], E[2, 2], 2 * E[0, 1], 2 * E[1, 2], 2 * E[0, 2]])
        cbcd.append({"Deformation Gradient": q(F.mean(-2).transpose([2, 0, 1]), S),
                     "Principal Values of Logarithmic Strain": q(e[::-1].mean(-2).T, S),
                     "Logarithmic Strain": q(voigt.mean(-2).T, S)})
        if custom:
            cbpd.append({"my point data": fhex(res.x[0].values[:, :1] * 2.0)})
            cbcd[-1]["my cell data"] = q(F[0, 0].mean(0), S)
        else:
            cbpd.append({})

    values = list(ramp) + ([50.0] if fail else [])
    step = fem.Step(items=items, ramp={bounds["move"]: np.array(values)}, boundaries=bounds)
    fn = "job_%s.xdmf" % name
    kw = {}
    if custom:
        kw["point_data"] = {"my point data": lambda field, substep: field[0].values[:, :1] * 2.0}
        kw["cell_data"] = {"my cell data": lambda field, substep: [field.extract()[0][0, 0].mean(0)]}
    kw["point_data_default"] = pdd
    kw["cell_data_default"] = cdd
    tracer.begin(rid)
    try:
        fem.Job(steps=[step], callback=cb).evaluate(filename=fn, verbose=0, maxiter=4 if fail else 12, **kw)
    except ValueError:
        pass
    tracer.end()
    tout.flush()
    times, us, cds, pds = read_frames(fn)
    defaults = ["Deformation Gradient", "Principal Values of Logarithmic Strain", "Logarithmic Strain"]
    keys = (defaults if cdd else []) + (["my cell data"] if custom else [])
    expectpd = (["Displacement"] if pdd else []) + (["my point data"] if custom else [])
    if not pdd:
        us = [np.zeros(0) for _ in times]
        cbu = [[] for _ in cbu]
    if not cdd:
        cbcd = [{k: v for k, v in c.items() if k not in defaults} for c in cbcd]
    out.write({"id": rid, "kind": "frames", "nt": True, "expect": -1, "times": times, "tol": 8, "keys": keys,
               "cdkeys": [sorted(cd.keys()) for cd in cds], "pdkeys": [sorted(pd.keys()) for pd in pds], "expectcd": keys, "expectpd": expectpd,
               "fileu": [fhex(u) for u in us], "cbu": cbu,
               "filecd": [{k: q(np.asarray(v[0]), S) for k, v in cd.items()} for cd in cds], "cbcd": cbcd,
               "filepd": [{k: fhex(v) for k, v in pd.items() if k != "Displacement"} for pd in pds], "cbpd": cbpd})
    for f in os.listdir("."):
        if f.startswith("job_"):
            os.remove(f)


def replay_frames(out, tout, n, line, maxiter):
    """a SolverMC behaviour with file output: the number of frames is what the model predicts"""
    parts = line.split("|")
    script = parts[1].split(",")
    head = script[0].split(":")
    if head[0] != "job" or head[3] != "T":
        return
    rid = "replayframes-%05d:%s" % (n, parts[1])
    if not (out.want(rid) or tout.want(rid)):
        return
    ns, ux = int(head[1]), head[2] == "T"
    oracle = sl.Oracle([t for t in script[1:] if t in ("conv", "cont", "nan")])
    field = sl.small_field(2)
    ifield = sl.small_field(2) if ux else field      # x0 is a separate top-level container, the items keep their own
    a, b = sl.StateItem(ifield), sl.ScriptedItem(ifield, oracle)
    bounds = {"fix": fem.Boundary(field[0], fx=0)}
    nsubs = [int(t.split(":")[1]) for t in script[1:] if t.startswith("step:")]
    nsubs += [1] * (ns - len(nsubs))
    steps = [fem.Step(items=[a, b], ramp={b: np.arange(1.0, m + 1)}, boundaries=bounds) for m in nsubs]
    cbu = []
    kw = {"maxiter": maxiter, "cell_data_default": False}
    if ux:
        kw["x0"] = field
    if ns == 0:
        kw["mesh"] = field.region.mesh.as_meshio()
    fn = "job_replay.xdmf"
    tracer.begin(rid)
    try:
        fem.Job(steps=steps, callback=lambda j, i, res: cbu.append(fhex(fem.math.displacement(res.x, dim=3)))).evaluate(
            filename=fn, verbose=0, **kw)
    except ValueError:
        pass
    tracer.end({"nres": int(parts[2]), "raised": parts[3], "iters": [int(v) for v in parts[4].split(",") if v],
                "ncb": int(parts[5]), "nframes": int(parts[6]), "committed": {}})
    tout.flush()
    times, us, cds, pds = read_frames(fn)
    out.write({"id": rid, "kind": "frames", "nt": int(parts[2]) > 0, "expect": int(parts[2]), "times": times, "tol": 8, "keys": [],
               "cdkeys": [[] for _ in times], "pdkeys": [["Displacement"] for _ in times], "expectcd": [], "expectpd": ["Displacement"],
               "fileu": [fhex(u) for u in us], "cbu": cbu, "filecd": [], "cbcd": [], "filepd": [], "cbpd": []})
    for f in os.listdir("."):
        if f.startswith("job_"):
            os.remove(f)


def saves(out):
    import meshio
    for name, mk in (("hex", lambda: fem.Cube(n=3)), ("quad", lambda: fem.Rectangle(n=4))):
        for ext in ("vtu", "xdmf"):
            for withgrad in (False, True):
                rid = "save-%s-%s%s" % (name, ext, "-gradient" if withgrad else "")
                if not out.want(rid) or (withgrad and name != "hex"):
                    continue
                mesh = mk()
                dim = mesh.points.shape[1]
                region = (fem.RegionHexahedron if dim == 3 else fem.RegionQuad)(mesh)
                field = fem.FieldContainer([fem.Field(region, dim=dim)])
                rng = np.random.RandomState(11)
                field[0].values[:] = rng.randint(-64, 65, size=field[0].values.shape) / 512.0
                forces = rng.randint(-64, 65, size=field[0].values.size) / 256.0
                grad = None
                if withgrad:
                    solid = fem.SolidBody(fem.NeoHooke(mu=1.25, bulk=2.0), field)
                    grad = solid.evaluate.gradient(field)
                fn = "sv_%s.%s" % (name, ext)

                def case(fn=fn, grad=grad, rid=rid, field=field, forces=forces, region=region):
                    fem.tools.save(region, field, forces=forces, gradient=grad, filename=fn)          # an exception here is felupe's
                    try:
                        m = meshio.read(fn)
                    except Exception as ex:  # noqa: BLE001  the (trusted) reader rejects the file felupe wrote
                        return {"id": rid, "kind": "save", "nt": True, "readable": False, "error": str(ex)[:160], "uw": [], "ur": [], "fw": [], "fr": []}
                    return {"id": rid, "kind": "save", "nt": True, "readable": True, "uw": fhex(field[0].values), "ur": fhex(m.point_data["Displacements"]),
                            "fw": fhex(forces), "fr": fhex(m.point_data["Reaction Force"])}

                out.attempt(rid, case)
                for f_ in os.listdir("."):
                    if f_.startswith("sv_"):
                        os.remove(f_)


def main():
    a = args()
    opts = dict(o.split("=", 1) for o in a.opt.split(";") if o)
    tout = TraceOut(a.out, a.shards, a.only_ids)
    a2 = copy.copy(a)
    a2.out = a.out + "-laws"
    out = Out(a2)
    roundtrips(out, a.tier)
    shared(out)
    saves(out)

    def hexjob(n=3, umat=None):
        def mk():
            mesh = fem.Cube(n=n)
            region = fem.RegionHexahedron(mesh)
            field = fem.FieldContainer([fem.Field(region, dim=3)])
            bounds, lc = fem.dof.uniaxial(field, clamped=True)
            return field, [fem.SolidBody(umat or fem.NeoHooke(mu=1.25, bulk=5.0), field)], bounds
        return mk

    def quadjob():
        mesh = fem.Rectangle(n=4)
        region = fem.RegionQuad(mesh)
        field = fem.FieldContainer([fem.FieldPlaneStrain(region, dim=2)])
        bounds, lc = fem.dof.uniaxial(field, clamped=True)
        return field, [fem.SolidBody(fem.NeoHooke(mu=1.25, bulk=5.0), field)], bounds

    real_job(out, tout, "hex-3", hexjob(), [0.1, 0.2, 0.3])
    real_job(out, tout, "hex-stops-early", hexjob(), [0.1, 0.2], fail=True)
    real_job(out, tout, "hex-custom-data", hexjob(), [0.1, 0.25], custom=True)
    real_job(out, tout, "hex-cyclic", hexjob(umat=fem.OgdenRoxburgh(fem.NeoHooke(mu=1.25, bulk=5), r=3, m=0.75, beta=0.125)), [0.3, 0.1, 0.2, 0.0])
    real_job(out, tout, "quad-planestrain", quadjob, [0.1, 0.2])
    for pdd, cdd in ((True, False), (False, True), (False, False)):
        real_job(out, tout, "hex-flags-p%d-c%d" % (pdd, cdd), hexjob(), [0.1, 0.2], custom=True, pdd=pdd, cdd=cdd)
    if a.tier == "thorough":
        real_job(out, tout, "hex-n4-6", hexjob(4), [0.05, 0.1, 0.15, 0.2, 0.25, 0.3])
    bf = opts.get("behaviours")
    if bf and os.path.exists(bf):
        maxiter = int(opts.get("maxiter", "2"))
        with open(bf) as f:
            lines = sorted({ln.strip().strip('"') for ln in f if "BEHAVIOUR|" in ln})
        for n, ln in enumerate(lines):
            replay_frames(out, tout, n, ln, maxiter)
    tout.close()
    out.close()


if __name__ == "__main__":
    main()
