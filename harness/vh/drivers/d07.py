"""C07 driver: (a) real problems solved under the run-time tracer, (b) TLC behaviours of SolverMC
replayed with scripted items, (c) numeric observables of successful solves (bit patterns of the
prescribed unknowns, independently re-assembled residual norms, partitioned integer solves).
NO judgement here: traces go to SolverTrace.tla, law records to NewtonLaws.tla."""
import copy
import json
import os
import sys

import numpy as np
from scipy.sparse import csr_matrix

from . import solverlib as sl
from .common import Out, args, qi
from .solverlib import fem, fhex, fp, tracer

tracer.install()


class TraceOut:
    """whole traces, round-robin over shards"""

    def __init__(self, prefix, shards, only=None):
        self.prefix, self.shards, self.k, self.only = prefix, shards, 0, only
        self.files = [open("%s.%02d.ndjson" % (prefix, n), "w") for n in range(shards)]
        self.used = [False] * shards

    def want(self, tid):
        return self.only is None or tid in self.only

    def flush(self):
        f = self.files[self.k % self.shards]
        self.used[self.k % self.shards] = True
        for e in tracer.EV:
            f.write(json.dumps(e, separators=(",", ":")) + "\n")
        tracer.reset()
        self.k += 1

    def close(self):
        for n, f in enumerate(self.files):
            f.close()
            if not self.used[n]:
                os.remove(f.name)


# ----------------------------------------------------------------------------- real problems
def independent_residual(make_items, res_x, dof0, dof1, statevars=None):
    """re-assemble the residual from the returned values through freshly constructed items"""
    field = res_x.copy()
    items = make_items(field, statevars)
    f = fem.tools._newton.fun_items(items, field)
    return float(np.linalg.norm(f[dof1])), float(np.linalg.norm(f[dof0]))


def prescribed(field, bounds, dof0):
    """the prescribed values at dof0, laid out by the driver itself (field offsets = cumulative sizes; a boundary's value broadcast
    over its unknowns; later boundaries win) -- independent of felupe.dof.apply, which is what the solver used"""
    sizes = [f.values.size for f in field.fields]
    offs = np.concatenate([[0], np.cumsum(sizes)[:-1]]).astype(int)
    full = np.concatenate([f.values.ravel() for f in field.fields]).astype(float)
    for b in bounds.values():
        k = [n for n, f in enumerate(field.fields) if f is b.field][0]
        full[offs[k] + np.asarray(b.dof, int)] = np.broadcast_to(np.asarray(b.value, float).ravel() if np.ndim(b.value) else float(b.value),
                                                                  (len(b.dof),))
    return full[dof0]


def problems(tier):
    """name -> builder; a builder returns dict(field, make_items, boundaries|loadcase, ramp, linear, ...)"""
    P = {}

    def cube(n=3, cls=fem.RegionHexahedron, mesh=None):
        mesh = mesh or fem.Cube(n=n)
        region = cls(mesh)
        return fem.FieldContainer([fem.Field(region, dim=3)])

    def nh(field, sv=None):
        return [fem.SolidBody(fem.NeoHooke(mu=1.25, bulk=5.0), field)]

    def add(name, field_fn, items_fn, lc="uniaxial", lckw=None, ramp=(0.1, 0.2), linear=False, tol=None, maxiter=8,
            stateful=False, extra_items=None):
        P[name] = dict(field_fn=field_fn, items_fn=items_fn, lc=lc, lckw=lckw or {}, ramp=list(ramp), linear=linear,
                       tol=tol, maxiter=maxiter, stateful=stateful, extra_items=extra_items)

    add("hex-neohooke-uniaxial", cube, nh)
    add("hex-neohooke-uniaxial-free", cube, nh, lckw=dict(clamped=False))
    add("hex-neohooke-shear", cube, nh, lc="shear")
    add("hex-neohooke-biaxial", cube, nh, lc="biaxial", ramp=(0.05, 0.1))
    add("hex-neohooke-tol1e-4-maxiter4", cube, nh, tol=1e-4, maxiter=4)
    add("hex-linear-elastic", cube, lambda f, sv=None: [fem.SolidBody(fem.LinearElastic(E=2.0, nu=0.3), f)], linear=True,
        ramp=(0.1, 0.25))
    add("hex-ogden-roxburgh", cube,
        lambda f, sv=None: [fem.SolidBody(fem.OgdenRoxburgh(fem.NeoHooke(mu=1.25, bulk=5), r=3, m=0.75, beta=0.125), f, statevars=sv)],
        ramp=(0.2, 0.1, 0.3), stateful=True)

    def quad(n=4):
        mesh = fem.Rectangle(n=n)
        region = fem.RegionQuad(mesh)
        return fem.FieldContainer([fem.FieldPlaneStrain(region, dim=2)])

    add("quad-planestrain-neohooke", quad, nh)

    def axi(n=4):
        mesh = fem.Rectangle(n=n)
        region = fem.RegionQuad(mesh)
        return fem.FieldContainer([fem.FieldAxisymmetric(region, dim=2)])

    add("quad-axisymmetric-neohooke", axi, nh)

    def mixed(n=3):
        mesh = fem.Cube(n=n)
        region = fem.RegionHexahedron(mesh)
        return fem.FieldsMixed(region, n=3)

    add("hex-mixed-threefield", mixed,
        lambda f, sv=None: [fem.SolidBody(fem.ThreeFieldVariation(fem.NeoHooke(mu=1.25, bulk=50.0)), f)])
    add("hex-mixed-threefield-Jbc", mixed,
        lambda f, sv=None: [fem.SolidBody(fem.ThreeFieldVariation(fem.NeoHooke(mu=1.25, bulk=50.0)), f)], lc="uniaxial-Jbc", maxiter=12)
    add("hex-nearly-incompressible", cube,
        lambda f, sv=None: [fem.SolidBodyNearlyIncompressible(fem.NeoHooke(mu=1.25), f, bulk=500.0)])

    def tet():
        mesh = fem.Cube(n=3).triangulate()
        region = fem.RegionTetra(mesh)
        return fem.FieldContainer([fem.Field(region, dim=3)])

    add("tet-neohooke", tet, nh)

    def hex20():
        mesh = fem.Cube(n=2).add_midpoints_edges()
        region = fem.RegionQuadraticHexahedron(mesh)
        return fem.FieldContainer([fem.Field(region, dim=3)])

    add("hex20-neohooke", hex20, nh, ramp=(0.05, 0.1))

    def with_pressure(f, sv=None):
        region = f.region
        bregion = fem.RegionHexahedronBoundary(region.mesh, mask=region.mesh.points[:, 1] == 1.0)
        bfield = fem.FieldContainer([fem.Field(bregion, dim=3)])
        return [fem.SolidBody(fem.NeoHooke(mu=1.25, bulk=5.0), f), fem.SolidBodyPressure(bfield, pressure=0.1)]

    add("hex-neohooke-pressure", cube, with_pressure)

    def with_pointload(f, sv=None):
        pts = np.arange(f.region.mesh.npoints)[f.region.mesh.points[:, 0] == 1.0]
        return [fem.SolidBody(fem.LinearElastic(E=2.0, nu=0.3), f), fem.PointLoad(f, pts, values=[0.0, 0.01, 0.0])]

    add("hex-linear-pointload", cube, with_pointload, linear=True)

    def with_gravity(f, sv=None):
        return [fem.SolidBody(fem.NeoHooke(mu=1.25, bulk=5.0), f), fem.SolidBodyGravity(f, gravity=[0, 0, -0.2], density=1.0)]

    add("hex-neohooke-gravity", cube, with_gravity)

    def plastic(f, sv=None):
        umat = fem.MaterialStrain(material=fem.constitution.linear_elastic_plastic_isotropic_hardening,
                                  λ=2.0, μ=1.0, σy=0.05, K=0.1, statevars=(1, (3, 3)))
        return [fem.SolidBody(umat, f, statevars=sv)]

    add("hex-plasticity", cube, plastic, ramp=(0.02, 0.05, 0.03), stateful=True)
    if tier == "thorough":
        add("hex-neohooke-n4", lambda: cube(4), nh, ramp=(0.1, 0.2, 0.3, 0.4))
        add("hex27-neohooke", lambda: cube(cls=fem.RegionTriQuadraticHexahedron, mesh=fem.Cube(n=2).convert(2, True, True, True)), nh,
            ramp=(0.05,))
    return P


def loadcase(kind, field, kw):
    if kind == "uniaxial-Jbc":
        # mixed (u, p, J) container: besides the displacement load case, the volume ratio of two cells is PRESCRIBED (a boundary on
        # the third field; its value differs from the current one)
        bounds, lc = fem.dof.uniaxial(field, **kw)
        mask = np.zeros(field[2].values.shape, dtype=bool)
        mask[[1, 4]] = True
        bounds["J"] = fem.Boundary(field[2], mask=mask, value=1.0 + 1.0 / 64)
        return bounds, lc
    fn = {"uniaxial": fem.dof.uniaxial, "shear": fem.dof.shear, "biaxial": fem.dof.biaxial}[kind]
    return fn(field, **kw)


def run_problem(name, p, variant, tout, laws):
    """variant: 'job', 'job-x0-file', 'newton', 'job-fail', 'two-jobs'"""
    tid = name + "/" + variant
    if not tout.want(tid):
        return
    field = p["field_fn"]()
    items = p["items_fn"](field, None)
    bounds, lc = loadcase(p["lc"], field, p["lckw"])
    movers = [b for k, b in bounds.items() if k.startswith("move")]
    kw = {"maxiter": p["maxiter"]}
    if p["tol"] is not None:
        kw["tol"] = p["tol"]
    tol = p["tol"] if p["tol"] is not None else float(np.sqrt(np.finfo(float).eps))
    tracer.begin(tid)
    seen = []

    def record(res, dof0, dof1, ext0, sv_before, lawid):
        n1, n0 = independent_residual(p["items_fn"], res.x, dof0, dof1, sv_before)
        xv = np.concatenate([f.values.ravel() for f in res.x.fields])
        laws.write({"id": lawid, "kind": "newton", "nt": True, "success": bool(res.success), "iterations": int(res.iterations),
                    "linear": bool(p["linear"]), "xd": fhex(xv[dof0]), "ext": fhex(ext0), "n0": len(dof0),
                    "ratio": fp(n1 / (1e-3 + n0)), "tol": fp(tol), "maxiter": int(p["maxiter"])})

    try:
        if variant == "newton":
            b2 = dict(bounds)
            [m.update(p["ramp"][0]) for m in movers]
            dof0, dof1 = fem.dof.partition(field, b2)
            ext0 = fem.dof.apply(field, b2, dof0)
            svb = copy.deepcopy(items[0].results.statevars)
            res = fem.newtonrhapson(items=items, dof0=dof0, dof1=dof1, ext0=ext0, verbose=0, **kw)
            record(res, dof0, dof1, prescribed(field, b2, dof0), svb, tid)
            # continuation from the converged state with a new prescribed value
            [m.update(p["ramp"][-1]) for m in movers]
            ext0 = fem.dof.apply(field, b2, dof0)
            svb = copy.deepcopy(items[0].results.statevars)
            res = fem.newtonrhapson(items=items, dof0=dof0, dof1=dof1, ext0=ext0, verbose=0, **kw)
            record(res, dof0, dof1, prescribed(field, b2, dof0), svb, tid + "#cont")
            # continuation by a very fine increment, and a micro-scale prescribed value from the virgin state:
            # the prescribed values must still be carried exactly (bit patterns)
            [m.update(p["ramp"][-1] + 2.0e-6) for m in movers]
            ext0 = fem.dof.apply(field, b2, dof0)
            svb = copy.deepcopy(items[0].results.statevars)
            res = fem.newtonrhapson(items=items, dof0=dof0, dof1=dof1, ext0=ext0, verbose=0, **kw)
            record(res, dof0, dof1, prescribed(field, b2, dof0), svb, tid + "#fine")
            field2 = p["field_fn"]()
            items2 = p["items_fn"](field2, None)
            bounds2, _ = loadcase(p["lc"], field2, p["lckw"])
            [b.update(1.0e-9) for k, b in bounds2.items() if k.startswith("move")]
            d0, d1 = fem.dof.partition(field2, bounds2)
            e0 = fem.dof.apply(field2, bounds2, d0)
            res = fem.newtonrhapson(items=items2, dof0=d0, dof1=d1, ext0=e0, verbose=0, **kw)
            n1, n0 = independent_residual(p["items_fn"], res.x, d0, d1, None)
            xv = np.concatenate([f.values.ravel() for f in res.x.fields])
            laws.write({"id": tid + "#micro", "kind": "newton", "nt": True, "success": bool(res.success), "iterations": int(res.iterations),
                        "linear": bool(p["linear"]), "xd": fhex(xv[d0]), "ext": fhex(prescribed(field2, bounds2, d0)), "n0": len(d0),
                        "ratio": fp(n1 / (1e-3 + n0)), "tol": fp(tol), "maxiter": int(p["maxiter"])})
        else:
            ramp = list(p["ramp"])
            if variant == "job-fail":
                ramp = ramp + [40.0]          # absurd stretch: the last substep cannot converge
                kw["maxiter"] = 3
            state = {"sv": copy.deepcopy(getattr(items[0].results, "statevars", None)), "n": 0}

            def cb(j, i, res):
                b = step.boundaries
                dof0, dof1 = fem.dof.partition(field, b)
                ext0 = fem.dof.apply(field, b, dof0)
                record(res, dof0, dof1, prescribed(field, b, dof0), state["sv"], "%s#%d" % (tid, state["n"]))
                state["sv"] = copy.deepcopy(items[0].results.statevars)
                state["n"] += 1

            step = fem.Step(items=items, ramp={m: np.array(ramp) for m in movers}, boundaries=bounds)
            steps = [step]
            if variant == "two-jobs":
                pass
            job = fem.Job(steps=steps, callback=cb)
            ekw = dict(kw)
            if variant == "job-x0-file":
                ekw["x0"] = field
                ekw["filename"] = "c07_%s.xdmf" % name
            if variant == "job-verbose":          # the printing paths of Job and newtonrhapson (output discarded)
                import contextlib
                import io
                with contextlib.redirect_stdout(io.StringIO()):
                    job.evaluate(verbose=2, **ekw)
            elif variant == "job-parallel":       # threaded assembly
                job.evaluate(verbose=0, parallel=True, **ekw)
            else:
                job.evaluate(verbose=0, **ekw)
            if variant == "two-jobs":
                step2 = fem.Step(items=items, ramp={m: np.array(ramp[::-1]) for m in movers}, boundaries=bounds)
                step = step2
                fem.Job(steps=[step2], callback=cb).evaluate(verbose=0, **kw)
    except ValueError:
        pass
    tracer.end()
    tout.flush()
    for fn in os.listdir("."):
        if fn.startswith("c07_"):
            os.remove(fn)


# ----------------------------------------------------------------------------- replay of TLC behaviours
def replay(n, line, maxiter, tout, prefix="beh"):
    """line: BEHAVIOUR|script|nres|raised|iters|ncb|nframes"""
    parts = line.split("|")
    script = parts[1].split(",")
    tid = "%s-%05d:%s" % (prefix, n, parts[1])
    if not tout.want(tid):
        return
    expect = {"nres": int(parts[2]), "raised": parts[3], "iters": [int(v) for v in parts[4].split(",") if v],
              "ncb": int(parts[5]), "nframes": int(parts[6])}
    head = script[0].split(":")
    oracle = sl.Oracle([t for t in script[1:] if t in ("conv", "cont", "nan")])
    field = sl.small_field(2)
    # with x0 the job works on a SEPARATE top-level container (the documented multi-body pattern): the items keep their own
    # container, Job links x0 to every converged substep
    ifield = sl.small_field(2) if (head[0] == "job" and head[2] == "T") else field
    a = sl.StateItem(ifield)
    b = sl.ScriptedItem(ifield, oracle)
    # expected committed state of the stateful item: its counter when the last 'conv' token was consumed
    last = {"v": 0.0}
    o_next = oracle.next

    def nxt():
        t = o_next()
        if t == "conv":
            last["v"] = float(a.counter)
        return t

    oracle.next = nxt
    bounds = {"fix": fem.Boundary(field[0], fx=0)}
    tracer.begin(tid)
    fname = None
    try:
        if head[0] == "newton":
            b.update(0.0)
            dof0, dof1 = fem.dof.partition(field, bounds)
            ext0 = fem.dof.apply(field, bounds, dof0)
            fem.newtonrhapson(items=[a, b], maxiter=maxiter, verbose=0, dof0=dof0, dof1=dof1, ext0=ext0)
        elif head[0] == "solostep":
            nsub = int(head[1])
            step = fem.Step(items=[a, b], ramp={b: np.arange(1.0, nsub + 1)}, boundaries=bounds)
            for _ in step.generate(verbose=0, maxiter=maxiter):
                pass
        else:
            ns, ux, fl = int(head[1]), head[2] == "T", head[3] == "T"
            nsubs = [int(t.split(":")[1]) for t in script[1:] if t.startswith("step:")]
            nsubs += [1] * (ns - len(nsubs))
            steps = [fem.Step(items=[a, b], ramp={b: np.arange(1.0, m + 1)}, boundaries=bounds) for m in nsubs]
            kw = {"maxiter": maxiter}
            if ux:
                kw["x0"] = field
            if fl:
                fname = "replay_%d.xdmf" % os.getpid()
                kw["filename"] = fname
                if ns == 0:      # a job without steps cannot take the mesh from its first item
                    kw["mesh"] = field.region.mesh.as_meshio()
            fem.Job(steps=steps).evaluate(verbose=0, **kw)
    except ValueError:
        pass
    expect["committed"] = {tracer.oid(a): tracer.dig(np.array([last["v"]]))}
    tracer.end(expect)
    tout.flush()
    if fname:
        for ext in (".xdmf", ".h5"):
            if os.path.exists(fname.replace(".xdmf", ext)):
                os.remove(fname.replace(".xdmf", ext))


# ----------------------------------------------------------------------------- partitioned solves
def partitioned(out, tier, seed):
    """integer systems with unimodular K11 (exact integer solutions)"""
    rng = np.random.RandomState(seed + 77)
    ncase = 40 if tier == "quick" else 400
    for c in range(ncase):
        field = sl.small_field(2)          # 8 points x 3 = 24 unknowns
        n = 24
        nd0 = rng.randint(1, 8)
        perm = rng.permutation(n)
        # index lists in ascending order (as dof.partition returns them) and, every other case, in the caller's own order
        dof0 = np.sort(perm[:nd0]) if c % 2 == 0 else perm[:nd0]
        dof1 = np.sort(perm[nd0:]) if c % 2 == 0 else perm[nd0:]
        # make the free block unimodular: K11 = M M^T with unit lower triangular M; other blocks random integers
        M = np.eye(len(dof1), dtype=int) + np.diag(rng.randint(-1, 2, size=len(dof1) - 1), -1)   # bidiagonal: small inverse
        K = rng.randint(-2, 3, size=(n, n))
        K[np.ix_(dof1, dof1)] = M @ M.T
        u = rng.randint(-2, 3, size=n).astype(float)
        field[0].values[:] = u.reshape(-1, 3)
        r = rng.randint(-3, 4, size=n).astype(float)
        ext0 = rng.randint(-3, 4, size=nd0).astype(float)
        use_ext = True
        rid = "partitioned-%d-%d" % (seed, c)
        if not out.want(rid):
            continue
        system = fem.solve.partition(field, csr_matrix(K.astype(float)), dof1, dof0, r)
        du = fem.solve.solve(*system, ext0 if use_ext else None)
        S = 16
        out.write({"id": rid, "kind": "partitioned", "nt": True, "n": n, "K": [qi(row) for row in K], "r": qi(r), "u": qi(u),
                   "ext0": qi(ext0) if use_ext else [], "useext": bool(use_ext), "dof0": qi(dof0 + 1), "dof1": qi(dof1 + 1),
                   "S": S, "du": [int(v) for v in np.rint(np.asarray(du).ravel() * S)]})


def main():
    a = args()
    opts = dict(o.split("=", 1) for o in a.opt.split(";") if o)
    tout = TraceOut(a.out, a.shards, a.only_ids)
    a2 = copy.copy(a)
    a2.out = a.out + "-laws"
    laws = Out(a2)
    P = problems(a.tier)
    variants = ["job", "newton", "job-x0-file", "job-fail", "two-jobs", "job-verbose", "job-parallel"]
    for n, (name, p) in enumerate(sorted(P.items())):
        vs = variants if a.tier == "thorough" else [variants[0], variants[1 + n % 6]]
        for v in vs:
            run_problem(name, p, v, tout, laws)
    partitioned(laws, a.tier, a.seed)
    bf = opts.get("behaviours")
    if bf and os.path.exists(bf):
        maxiter = int(opts.get("maxiter", "2"))
        with open(bf) as f:
            lines = [ln.strip().strip('"') for ln in f if "BEHAVIOUR|" in ln]
        lines = sorted(set(lines))
        for n, ln in enumerate(lines):
            replay(n, ln, maxiter, tout)
    tout.close()
    laws.close()


if __name__ == "__main__":
    main()
