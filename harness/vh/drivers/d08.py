"""C08 driver: builds real Mesh/Region/Field/FieldContainer/Boundary objects for each case and logs
the case description (as API-level arguments) plus what partition / apply / values / field update /
assembly / load cases return, as integers.  NO judgement here (Dof.tla recomputes everything)."""
import itertools

import numpy as np

import felupe as fem

from .common import Out, args, qi


def add_points(mesh, extra, rng):
    if extra == 0:
        return mesh
    pts = np.vstack([mesh.points, rng.randint(5, 9, size=(extra, mesh.points.shape[1])).astype(float)])
    return fem.Mesh(pts, mesh.cells, mesh.cell_type)


def containers(rng, which, extra):
    """returns (container, description)"""
    if which == "line":
        n = rng.randint(2, 5)
        mesh = add_points(fem.mesh.Line(a=0, b=n - 1, n=n), extra, rng)
        region = fem.Region(mesh, fem.Line(), fem.GaussLegendre(order=1, dim=1))
        return fem.FieldContainer([fem.Field(region, dim=int(rng.randint(1, 4)))])
    if which == "quad":
        nx, ny = rng.randint(2, 4), rng.randint(2, 4)
        mesh = add_points(fem.Rectangle(a=(0, 0), b=(nx - 1, ny - 1), n=(nx, ny)), extra, rng)
        region = fem.RegionQuad(mesh)
        return fem.FieldContainer([fem.Field(region, dim=2)])
    if which == "mixed":
        nx = rng.randint(2, 4)
        mesh = add_points(fem.Cube(a=(0, 0, 0), b=(nx - 1, 1, 1), n=(nx, 2, 2)), extra, rng)
        region = fem.RegionHexahedron(mesh)
        return fem.FieldsMixed(region, n=3)
    if which == "three":
        nx = rng.randint(2, 4)
        mesh = add_points(fem.Cube(a=(0, 0, 0), b=(nx - 1, 1, 1), n=(nx, 2, 2)), extra, rng)
        region = fem.RegionHexahedron(mesh)
        return fem.FieldContainer([fem.Field(region, dim=3), fem.Field(region, dim=1), fem.Field(region, dim=2)])
    raise ValueError(which)


def describe_fields(fc):
    out = []
    for f in fc.fields:
        m = f.region.mesh
        out.append({"np": int(m.npoints), "dim": int(f.dim), "nocell": qi(m.points_without_cells),
                    "values": qi(f.values), "coords": [qi(p) for p in m.points], "cells": [qi(c) for c in m.cells],
                    "idof": qi(f.indices.dof), "eai": [qi(c) for c in f.indices.cai]})
    return out


def random_boundary(rng, fc, fi, forced_kind=None, forced_mask=None):
    f = fc.fields[fi]
    m = f.region.mesh
    n, d, md = m.npoints, f.dim, m.points.shape[1]
    kind = forced_kind or ["dofmask", "pointmask", "coord"][rng.randint(0, 3)]
    desc = {"field": fi + 1, "kind": kind}
    if kind == "dofmask":
        mask = forced_mask if forced_mask is not None else (rng.rand(n, d) < 0.35)
        b_kw = dict(mask=mask)
        desc["mask"] = qi(mask.astype(int))
        nsel = int(mask.sum())
        full_rows = False
    elif kind == "pointmask":
        mask = rng.rand(n) < 0.4
        skip = tuple(bool(v) for v in (rng.rand(3) < 0.3))
        b_kw = dict(mask=mask, skip=skip[:d])
        desc["mask"] = qi(mask.astype(int))
        desc["skip"] = qi(np.array(skip[:d]).astype(int))
        nsel = int(mask.sum()) * int((~np.array(skip[:d])).sum())
        full_rows = not any(skip[:d])
    else:
        names = ["fx", "fy", "fz"][:md]
        use = rng.rand(md) < 0.6
        if not use.any():
            use[rng.randint(0, md)] = True
        targets, b_kw = [], {}
        for k in range(md):
            v = int(m.points[rng.randint(0, n), k])
            targets.append([int(use[k]), v])
            if use[k]:
                b_kw[names[k]] = float(v)
        mode = ["or", "and"][rng.randint(0, 2)]
        skip = tuple(bool(v) for v in (rng.rand(3) < 0.3))
        b_kw.update(mode=mode, skip=skip)
        desc.update(targets=targets, mode=mode, skip=qi(np.array(skip[:d]).astype(int)))
        nsel = None
        full_rows = not any(skip[:d])
    B = fem.Boundary(f, **b_kw)
    nsel = int(B.dof.size)
    vk = ["scalar", "perdof", "row", "matrixT"][rng.randint(0, 4)]
    if vk == "perdof" and nsel == 0:
        vk = "scalar"
    if vk in ("row", "matrixT") and (not full_rows or kind == "dofmask" or nsel == 0 or d == 1):
        vk = "scalar"
    if vk == "scalar":
        val = float(rng.randint(-5, 6))
        desc.update(vkind="scalar", value=[int(val)])
    elif vk == "perdof":
        val = rng.randint(-5, 6, size=nsel).astype(float)
        desc.update(vkind="perdof", value=qi(val))
    elif vk == "matrixT":
        # one value per selected (point, component), handed over as a NON-contiguous array (transpose of a component-major array):
        # logically value[point, component], i.e. the same as the per-dof vector value.ravel() in C order
        comp_major = rng.randint(-5, 6, size=(d, nsel // d)).astype(float)
        val = comp_major.T
        desc.update(vkind="perdof", value=qi(np.ascontiguousarray(val).ravel()))
    else:
        val = rng.randint(-5, 6, size=d).astype(float)
        desc.update(vkind="row", value=qi(val))
    B.update(val)
    desc["dofobs"] = qi(B.dof)
    desc["pointsobs"] = qi(B.points)
    return B, desc


def partition_case(rid, rng, which, extra, nb, forced=None):
    fc = containers(rng, which, extra)
    for f in fc.fields:
        f.values[:] = rng.randint(-3, 4, size=f.values.shape).astype(float)
    bounds, descs = {}, []
    for b in range(nb):
        fi = rng.randint(0, len(fc.fields))
        if forced is not None:
            fi = 0
        B, desc = random_boundary(rng, fc, fi, *(forced or (None, None)))
        bounds["b%d" % b] = B
        descs.append(desc)
    dof0, dof1 = fem.dof.partition(fc, bounds)
    ext0 = fem.dof.apply(fc, bounds, dof0)
    return {"id": rid, "kind": "partition", "nt": nb > 0, "fields": describe_fields(fc), "bounds": descs,
            "dof0": qi(dof0), "dof1": qi(dof1), "ext0": qi(ext0)}


def numbering_case(rid, rng, which, extra):
    fc = containers(rng, which, extra)
    for f in fc.fields:
        f.values[:] = rng.randint(-3, 4, size=f.values.shape).astype(float)
    fields = describe_fields(fc)
    n = int(sum(fc.fieldsizes))
    dx = rng.randint(-4, 5, size=n).astype(float)
    upd = fc + dx
    probes = []
    region = fc.fields[0].region
    nq, nc = region.dV.shape
    for fi, f in enumerate(fc.fields):
        for comp in range(f.dim):
            fun = [np.zeros((g.dim, nq, nc)) for g in fc.fields]
            fun[fi][comp] = 1.0
            vec = fem.IntegralForm(fun, v=fc, dV=region.dV, grad_v=[False] * len(fc.fields)).assemble().toarray().ravel()
            probes.append({"field": fi + 1, "comp": comp, "rows": qi(np.nonzero(vec)[0])})
    return {"id": rid, "kind": "numbering", "nt": True, "fields": fields, "values": qi(fem.math.values(fc)),
            "dx": qi(dx), "updated": [qi(f.values) for f in upd.fields], "probes": probes}


def loadcases(out, tier):
    meshes = {
        "rect": (lambda: fem.Rectangle(a=(0, 0), b=(2, 1), n=(3, 2)), lambda r: fem.RegionQuad(r), 2),
        "rect-shift": (lambda: fem.Rectangle(a=(-1, -1), b=(1, 1), n=(3, 3)), lambda r: fem.RegionQuad(r), 2),
        "rect-offset": (lambda: fem.Rectangle(a=(0, 1), b=(2, 3), n=(3, 3)), lambda r: fem.RegionQuad(r), 2),
        "cube-offset": (lambda: fem.Cube(a=(0, 2, -1), b=(1, 4, 1), n=(2, 3, 3)), lambda r: fem.RegionHexahedron(r), 3),
        "cube": (lambda: fem.Cube(a=(0, 0, 0), b=(1, 2, 1), n=(2, 3, 2)), lambda r: fem.RegionHexahedron(r), 3),
        "cube-shift": (lambda: fem.Cube(a=(-1, -1, -1), b=(1, 1, 1), n=(3, 2, 3)), lambda r: fem.RegionHexahedron(r), 3),
    }
    SC = 8

    def emit(rid, lc, field, mkres, a):
        """mkres() calls the load-case function; an exception raised there is a record (NoException), the loop goes on"""
        def case():
            m = field[0].region.mesh
            bounds, d = mkres()
            return {"id": rid, "kind": "loadcase", "nt": True, "lc": lc, "dim": int(field[0].dim), "coords": [qi(p) for p in m.points],
                    "args": a, "dof0": qi(d["dof0"]), "dof1": qi(d["dof1"]), "ext0": qi(np.rint(np.asarray(d["ext0"]) * SC))}
        out.attempt(rid, case)

    for mname, (mk, rg, dim) in meshes.items():
        kinds = [("Field", lambda r, dim=dim: fem.Field(r, dim=dim))]
        if dim == 2:
            kinds += [("PlaneStrain", lambda r: fem.FieldPlaneStrain(r, dim=2)), ("Axisymmetric", lambda r: fem.FieldAxisymmetric(r, dim=2))]
        for kname, kf in kinds:
            field = fem.FieldContainer([kf(rg(mk()))])
            flags = list(itertools.product([0, 1], repeat=3))
            for sym in flags:
                s = list(sym[:dim])
                rid = "lc-symmetry-%s-%s-%s" % (mname, kname, "".join(map(str, s)))
                if out.want(rid):
                    def symcase(sym=sym, field=field):
                        b = fem.dof.symmetry(field[0], axes=tuple(bool(v) for v in sym))
                        dof0, dof1 = fem.dof.partition(field, b)
                        ext0 = fem.dof.apply(field, b, dof0)
                        return (b, dict(dof0=dof0, dof1=dof1, ext0=ext0))
                    emit(rid, "symmetry", field, symcase, {"sym": s})
                for axis in range(dim):
                    for clamped in (True, False):
                        for move in (0.25, -0.5):
                            rid = "lc-uniaxial-%s-%s-%s-a%d-c%d-m%g" % (mname, kname, "".join(map(str, s)), axis, clamped, move)
                            if out.want(rid):
                                res = lambda field=field, move=move, axis=axis, clamped=clamped, sym=sym: fem.dof.uniaxial(  # noqa: E731
                                    field, move=move, axis=axis, clamped=clamped, sym=tuple(bool(v) for v in sym))
                                emit(rid, "uniaxial", field, res, {"sym": s, "axis": axis, "clamped": bool(clamped), "move": int(move * SC)})
                for axes in itertools.permutations(range(dim), 2):
                    for clampes in ((False, False), (True, False), (False, True)):
                        moves = (0.25, -0.5)
                        rid = "lc-biaxial-%s-%s-%s-a%d%d-c%d%d" % (mname, kname, "".join(map(str, s)), axes[0], axes[1], clampes[0], clampes[1])
                        if out.want(rid):
                            res = lambda field=field, moves=moves, axes=axes, clampes=clampes, sym=sym: fem.dof.biaxial(  # noqa: E731
                                field, moves=moves, axes=axes, clampes=clampes, sym=tuple(bool(v) for v in sym))
                            emit(rid, "biaxial", field, res, {"sym": s, "axes": list(axes), "clampes": [bool(c) for c in clampes],
                                                              "moves": [int(v * SC) for v in moves]})
            for axes in itertools.permutations(range(dim), 2):
                for symflag in (True, False):
                    for moves in ((0.25, 0.0, 0.0), (0.5, 0.125, -0.25)):
                        rid = "lc-shear-%s-%s-a%d%d-s%d-m%g" % (mname, kname, axes[0], axes[1], symflag, moves[1])
                        if out.want(rid):
                            res = lambda field=field, moves=moves, axes=axes, symflag=symflag: fem.dof.shear(field, moves=moves, axes=axes, sym=symflag)  # noqa: E731
                            emit(rid, "shear", field, res, {"axes": list(axes), "sym": bool(symflag), "moves": [int(v * SC) for v in moves]})


def main():
    a = args()
    out = Out(a)
    quick = a.tier == "quick"
    rng = np.random.RandomState(1000 + a.seed)
    # exhaustive small scope: every dof mask of one boundary on a 3-point line mesh + 1 cell-less point, dim 2
    for bits in range(256):
        rid = "partition-exhaustive-%03d" % bits
        if not out.want(rid):
            continue
        r2 = np.random.RandomState(bits)
        mesh = fem.Mesh(np.array([[0.0], [1.0], [2.0], [7.0]]), np.array([[0, 1], [1, 2]]), "line")
        region = fem.Region(mesh, fem.Line(), fem.GaussLegendre(order=1, dim=1))
        fc = fem.FieldContainer([fem.Field(region, dim=2)])
        fc[0].values[:] = r2.randint(-3, 4, size=(4, 2)).astype(float)
        mask = np.array([(bits >> k) & 1 for k in range(8)], dtype=bool).reshape(4, 2)
        B = fem.Boundary(fc[0], mask=mask)
        val = r2.randint(-5, 6, size=int(mask.sum())).astype(float) if mask.sum() and bits % 2 else float(r2.randint(-5, 6))
        B.update(val)
        desc = {"field": 1, "kind": "dofmask", "mask": qi(mask.astype(int)), "vkind": "perdof" if isinstance(val, np.ndarray) else "scalar",
                "value": qi(val) if isinstance(val, np.ndarray) else [int(val)], "dofobs": qi(B.dof), "pointsobs": qi(B.points)}
        bounds = {"b": B}
        dof0, dof1 = fem.dof.partition(fc, bounds)
        ext0 = fem.dof.apply(fc, bounds, dof0)
        out.write({"id": rid, "kind": "partition", "nt": bits > 0, "fields": describe_fields(fc), "bounds": [desc],
                   "dof0": qi(dof0), "dof1": qi(dof1), "ext0": qi(ext0)})
    nrand = 300 if quick else 4000
    for c in range(nrand):
        which = ["line", "quad", "mixed", "three"][c % 4]
        rid = "partition-%s-%d-%04d" % (which, a.seed, c)
        r2 = np.random.RandomState(rng.randint(0, 2 ** 31 - 1))
        out.attempt(rid, lambda: partition_case(rid, r2, which, extra=int(r2.randint(0, 3)), nb=int(r2.randint(0, 4))))
    for c in range(40 if quick else 400):
        which = ["line", "quad", "mixed", "three"][c % 4]
        rid = "numbering-%s-%d-%04d" % (which, a.seed, c)
        r2 = np.random.RandomState(rng.randint(0, 2 ** 31 - 1))
        out.attempt(rid, lambda: numbering_case(rid, r2, which, extra=int(r2.randint(0, 3))))
    loadcases(out, a.tier)
    out.close()


if __name__ == "__main__":
    main()
