"""C01 / C14 driver: builds every kind of item on lattice-distorted meshes with lattice states and
logs (C01) symmetric differences of the assembled vector on the 7-point stencil, columns of the
assembled matrix, the matrix itself, what fun_items / jac_items return; (C14) nodal force vectors,
exact current positions, load resultants, mass matrices.  NO judgement here (Items.tla)."""
import itertools
import warnings

import numpy as np

warnings.filterwarnings("ignore")

import felupe as fem  # noqa: E402

from .common import Out, args, q, qi  # noqa: E402

S = 2 ** 20
SD = 2 ** 22
SK = 2 ** 18
H = 2.0 ** -6


def getx(field):
    return np.concatenate([f.values.ravel() for f in field.fields])


def setx(field, x):
    o = 0
    for f in field.fields:
        n = f.values.size
        f.values[:] = x[o:o + n].reshape(f.values.shape)
        o += n


def vec(item, field, settle=False):
    if settle:
        item.assemble.vector(field)
    v = item.assemble.vector(field).toarray()[:, 0]
    n = int(sum(field.fieldsizes))
    if v.size < n:
        v = np.concatenate([v, np.zeros(n - v.size)])
    return v


def mat(item, field, n):
    K = item.assemble.matrix(field).toarray()
    if K.shape != (n, n):
        Kp = np.zeros((n, n))
        Kp[:K.shape[0], :K.shape[1]] = K
        K = Kp
    return K


def min_det(field):
    try:
        F = field.extract()[0]
        return float(np.linalg.det(np.moveaxis(F.reshape(F.shape[0], F.shape[1], -1), -1, 0)).min())
    except Exception:
        return 1.0


def tangent_record(rid, item, field, symmetric, rng, settle=False, ncols=10, full=True):
    x0 = getx(field).copy()
    n = x0.size
    if settle:
        vec(item, field, True)
    else:
        # the matrix is requested FIRST at this state, right after the item has been evaluated at a different one: it must refer to
        # the current values of the field it is handed, not to anything cached by the previous call
        other = x0.copy()
        other[rng.choice(n, size=min(6, n), replace=False)] += 2 * H
        setx(field, other)
        vec(item, field)
        setx(field, x0)
    K = mat(item, field, n)
    cols = []
    js = list(range(n)) if n <= ncols else sorted(rng.choice(n, size=ncols, replace=False).tolist())
    dirs = [("unit", j) for j in js] + [("lattice", None)]
    mind = min_det(field)
    for kind, j in dirs:
        d = np.zeros(n)
        if kind == "unit":
            d[j] = 1.0
        else:
            # sparse lattice direction (6 entries +-1): the stencil reaches 3 h |d| from the state
            d = np.zeros(n)
            nz = rng.choice(n, size=min(6, n), replace=False)
            d[nz] = rng.choice([-1.0, 1.0], size=len(nz))
        D = []
        for s in (1, 2, 3):
            setx(field, x0 + s * H * d)
            rp = vec(item, field, settle)
            mind = min(mind, min_det(field))
            setx(field, x0 - s * H * d)
            rm = vec(item, field, settle)
            mind = min(mind, min_det(field))
            D.append(rp - rm)
        c = {"unit": kind == "unit", "D1": q(D[0], SD), "D2": q(D[1], SD), "D3": q(D[2], SD)}
        if kind == "unit":
            c["Kd"] = q(K[:, j], SK)
            c["dir"] = []
        else:
            c["Kd"] = []
            c["dir"] = qi(d)
        cols.append(c)
    setx(field, x0)
    if settle:
        vec(item, field, True)
    return {"id": rid, "kind": "tangent", "nt": True, "n": int(n), "S": S, "symmetric": bool(symmetric), "mindetF": q(mind, S)[0],
            "K": q(K, SK), "cols": cols}


# ------------------------------------------------------------------------------------------- meshes / states
def perturb(mesh, rng, amp=1 / 16.0):
    pts = mesh.points.copy()
    lo, hi = pts.min(0), pts.max(0)
    inner = np.all((pts > lo + 1e-9) & (pts < hi - 1e-9), axis=1)
    pts[inner] += rng.randint(-1, 2, size=(int(inner.sum()), pts.shape[1])) * amp
    return fem.Mesh(pts, mesh.cells, mesh.cell_type)


def state(field, rng, amp=1 / 32.0):
    field[0].values[:] = rng.randint(-1, 2, size=field[0].values.shape) * amp
    for k, f in enumerate(field.fields[1:], 1):
        if k == 1:
            f.values[:] = rng.randint(-2, 3, size=f.values.shape) / 16.0           # pressure-like
        else:
            f.values[:] = 1 + rng.randint(-1, 2, size=f.values.shape) / 16.0       # volume-ratio-like
    return field


MATERIALS = {
    "svk": lambda: fem.constitution.SaintVenantKirchhoff(mu=1.25, lmbda=2.0) if hasattr(fem.constitution, "SaintVenantKirchhoff")
    else fem.Hyperelastic(fem.saint_venant_kirchhoff, mu=1.25, lmbda=2.0),
    "neohooke": lambda: fem.NeoHooke(mu=1.25, bulk=5.0),
    "neohooke-bulkonly": lambda: fem.NeoHooke(mu=None, bulk=3.5),
    "neohookecompressible": lambda: fem.NeoHookeCompressible(mu=1.25, lmbda=2.0),
    "linearelastic": lambda: fem.LinearElastic(E=2.0, nu=0.25),
    "mooneyrivlin-ad": lambda: fem.Hyperelastic(fem.mooney_rivlin, C10=0.3, C01=0.2) & fem.Volumetric(bulk=5.0),
}


def cases(tier, rng):
    """yields (name, builder) ; builder() -> (item, field, symmetric, settle, kind)"""
    quick = tier == "quick"
    mats = ["neohooke", "svk", "neohooke-bulkonly"] if quick else list(MATERIALS)

    def hexfield(order=1, n=3):
        m = perturb(fem.Cube(n=n), rng)
        if order == 2:
            m = fem.Cube(n=2).add_midpoints_edges()
            return state(fem.FieldContainer([fem.Field(fem.RegionQuadraticHexahedron(m), dim=3)]), rng, 1 / 64.0)
        return state(fem.FieldContainer([fem.Field(fem.RegionHexahedron(m), dim=3)]), rng)

    def quadfield(cls, shift=0.0):
        m = perturb(fem.Rectangle(a=(0, shift), b=(1, 1 + shift), n=3), rng)
        return state(fem.FieldContainer([cls(fem.RegionQuad(m), dim=2)]), rng)

    def tetfield():
        m = perturb(fem.Cube(n=3), rng).triangulate()
        return state(fem.FieldContainer([fem.Field(fem.RegionTetra(m), dim=3)]), rng)

    for mn in mats:
        um = MATERIALS[mn]
        sym = True
        yield "solid-hex-" + mn, lambda um=um: (lambda f: (fem.SolidBody(um(), f), f, True, False))(hexfield())
        yield "solid-planestrain-" + mn, lambda um=um: (lambda f: (fem.SolidBody(um(), f), f, True, False))(quadfield(fem.FieldPlaneStrain))
        yield "solid-axisymmetric-" + mn, lambda um=um: (lambda f: (fem.SolidBody(um(), f), f, True, False))(quadfield(fem.FieldAxisymmetric, 0.5))
        if not quick or mn == "neohooke":
            yield "solid-tet-" + mn, lambda um=um: (lambda f: (fem.SolidBody(um(), f), f, True, False))(tetfield())
            yield "solid-hex20-" + mn, lambda um=um: (lambda f: (fem.SolidBody(um(), f), f, True, False))(hexfield(2))

    def mixed(kind):
        if kind == "3d":
            m = perturb(fem.Cube(n=3), rng)
            f = fem.FieldsMixed(fem.RegionHexahedron(m), n=3)
        elif kind == "planestrain":
            m = perturb(fem.Rectangle(n=3), rng)
            f = fem.FieldsMixed(fem.RegionQuad(m), n=3, planestrain=True)
        else:
            m = perturb(fem.Rectangle(a=(0, 0.5), b=(1, 1.5), n=3), rng)
            f = fem.FieldsMixed(fem.RegionQuad(m), n=3, axisymmetric=True)
        return state(f, rng)

    for kind in ("3d", "planestrain", "axisymmetric"):
        yield "solid-mixed-%s-threefield" % kind, lambda kind=kind: (lambda f: (fem.SolidBody(fem.ThreeFieldVariation(fem.NeoHooke(mu=1.25, bulk=5.0)), f), f, True, False))(mixed(kind))
    yield "solid-mixed-3d-nearlyincompressible-umat", lambda: (lambda f: (fem.SolidBody(fem.NearlyIncompressible(fem.NeoHooke(mu=1.25), bulk=20.0), f), f, True, False))(mixed("3d"))
    yield "nearlyincompressible-hex", lambda: (lambda f: (fem.SolidBodyNearlyIncompressible(fem.NeoHooke(mu=1.25), f, bulk=20.0), f, True, True))(hexfield())
    yield "nearlyincompressible-axisymmetric", lambda: (lambda f: (fem.SolidBodyNearlyIncompressible(fem.NeoHooke(mu=1.25), f, bulk=20.0), f, True, True))(quadfield(fem.FieldAxisymmetric, 0.5))

    def pressure(kind):
        if kind == "hex":
            f = hexfield()
            rb = fem.RegionHexahedronBoundary(f.region.mesh)
            fb = fem.FieldContainer([fem.Field(rb, dim=3)])
        elif kind == "planestrain":
            f = quadfield(fem.FieldPlaneStrain)
            rb = fem.RegionQuadBoundary(f.region.mesh, ensure_3d=True)
            fb = fem.FieldContainer([fem.FieldPlaneStrain(rb, dim=2)])
        else:
            f = quadfield(fem.FieldAxisymmetric, 0.5)
            rb = fem.RegionQuadBoundary(f.region.mesh, ensure_3d=True)
            fb = fem.FieldContainer([fem.FieldAxisymmetric(rb, dim=2)])
        fb.link(f)
        return fb

    for kind in ("hex", "planestrain", "axisymmetric"):
        yield "pressure-" + kind, lambda kind=kind: (lambda fb: (fem.SolidBodyPressure(fb, pressure=0.75), fb, False, False))(pressure(kind))

    class CallKw:
        """an item whose vector and matrix are always requested with a call-time keyword (here: the pressure of THIS call, different
        from the stored one)"""
        def __init__(self, item, **kw):
            self.item, self.kw = item, kw
            outer = self

            class A:
                def vector(self, field=None, **k):
                    return outer.item.assemble.vector(field, **outer.kw, **k)

                def matrix(self, field=None, **k):
                    return outer.item.assemble.matrix(field, **outer.kw, **k)
            self.assemble = A()

    yield "pressure-hex-callkeyword", lambda: (lambda fb: (CallKw(fem.SolidBodyPressure(fb, pressure=0.25), pressure=0.625), fb, False, False))(pressure("hex"))
    yield "cauchystress-hex", lambda: (lambda fb: (fem.SolidBodyCauchyStress(fb, cauchy_stress=np.array([[0.5, 0.25, 0], [0.25, -0.5, 0.125], [0, 0.125, 1.0]])), fb, False, False))(pressure("hex"))

    def mpcfield():
        m = fem.Cube(n=3)
        m = fem.Mesh(np.vstack([m.points, [[2.0, 0.5, 0.5]]]), m.cells, m.cell_type)
        f = state(fem.FieldContainer([fem.Field(fem.RegionHexahedron(m), dim=3)]), rng)
        pts = np.arange(m.npoints)[m.points[:, 0] == 1]
        return f, pts, m.npoints - 1

    def mpc():
        f, pts, cp = mpcfield()
        return fem.MultiPointConstraint(f, points=pts, centerpoint=cp, skip=(0, 1, 0), multiplier=4.0), f, True, False

    def contact(closed):
        f, pts, cp = mpcfield()
        f[0].values[cp, 0] = -1.5 if closed else 0.5          # centre point far inside / far away: no switching on the stencil
        return fem.MultiPointContact(f, points=pts, centerpoint=cp, skip=(0, 1, 1), multiplier=4.0), f, True, False

    def contact_negative(closed):
        # rigid wall on the NEGATIVE side of the contact points (a wall left of the body)
        m = fem.Cube(n=3)
        m = fem.Mesh(np.vstack([m.points, [[-1.0, 0.5, 0.5]]]), m.cells, m.cell_type)
        f = state(fem.FieldContainer([fem.Field(fem.RegionHexahedron(m), dim=3)]), rng)
        pts = np.arange(m.npoints)[m.points[:, 0] == 0]
        cp = m.npoints - 1
        f[0].values[cp, 0] = 1.5 if closed else -0.5
        return fem.MultiPointContact(f, points=pts, centerpoint=cp, skip=(0, 1, 1), multiplier=4.0), f, True, False

    yield "mpc", mpc
    yield "contact-closed", lambda: contact(True)
    yield "contact-open", lambda: contact(False)
    yield "contact-negative-side-closed", lambda: contact_negative(True)
    yield "contact-negative-side-open", lambda: contact_negative(False)
    yield "pointload", lambda: (lambda f: (fem.PointLoad(f, [1, 2], values=[[1.0, 2.0, 3.0]]), f, True, False))(hexfield())
    yield "bodyforce", lambda: (lambda f: (fem.SolidBodyForce(f, values=[1.0, 2.0, 3.0], scale=2.0), f, True, False))(hexfield())
    yield "gravity", lambda: (lambda f: (fem.SolidBodyGravity(f, gravity=[0.0, 0.0, -2.0], density=1.5), f, True, False))(hexfield())

    def formitem():
        f = hexfield()
        from felupe.math import ddot, grad, sym, trace

        @fem.Form(v=f, u=f, kwargs={"mu": 1.0, "lmbda": 2.0})
        def bilinearform():
            def linear_elasticity(v, u, mu, lmbda):
                de, e = sym(grad(v)), sym(grad(u))
                return 2 * mu * ddot(de, e) + lmbda * trace(de) * trace(e)
            return [linear_elasticity]

        @fem.Form(v=f, kwargs={"mu": 1.0, "lmbda": 2.0})
        def linearform():
            def residual(v, mu, lmbda):
                e = sym(f[0].grad())
                s = 2 * mu * e + lmbda * trace(e) * np.eye(3).reshape(3, 3, 1, 1)
                return ddot(sym(grad(v)), s)
            return [residual]

        return fem.FormItem(bilinearform, linearform=linearform), f, True, False

    yield "formitem-linear-elasticity", formitem

    def history(kind):
        """bodies whose material carries state: one increment is assembled and COMMITTED, then the state moves on, so that the stored
        state differs from the trial state of the current evaluation (vector and matrix must both refer to the stored one)"""
        f = hexfield()
        first = getx(f).copy()
        if kind == "viscoelastic":
            umat = fem.Hyperelastic(fem.finite_strain_viscoelastic, mu=1.25, eta=2.0, dtime=0.5, nstatevars=6) & fem.Hyperelastic(
                fem.neo_hooke, mu=0.5) & fem.Volumetric(bulk=5.0) if False else fem.Hyperelastic(
                fem.finite_strain_viscoelastic, mu=1.25, eta=2.0, dtime=0.5, nstatevars=6)
            sv0 = np.zeros((6, *f.region.dV.shape))
            sv0[[0, 3, 5]] = 1.0
            item = fem.SolidBody(umat, f, statevars=sv0)
            sym_ = False
        elif kind == "plastic":
            umat = fem.MaterialStrain(material=fem.constitution.linear_elastic_plastic_isotropic_hardening, λ=2.0, μ=1.5, σy=0.02, K=0.25,
                                      statevars=(1, (3, 3)))
            item = fem.SolidBody(umat, f)
            sym_ = False
        else:
            item = fem.SolidBody(fem.OgdenRoxburgh(fem.NeoHooke(mu=1.25, bulk=5.0), r=3.0, m=0.75, beta=0.25), f)
            sym_ = False
        # a first, large and homogeneous increment (stretch 1.75 along x) is committed: every point is far on the loading side, so the
        # small lattice state and its stencil stay on ONE branch (unloading for the softening model, reverse plastic flow for plasticity)
        big = np.zeros_like(f[0].values)
        big[:, 0] = 0.75 * f.region.mesh.points[:, 0]
        f[0].values[:] = big
        item.assemble.vector(f)
        item.results.update_statevars()
        setx(f, first)
        item.assemble.vector(f)
        return item, f, sym_, False

    for kind in ("viscoelastic", "plastic", "ogdenroxburgh"):
        yield "solid-history-" + kind, lambda kind=kind: history(kind)

    def pointload_axi():
        f = quadfield(fem.FieldAxisymmetric, 0.5)
        pts = [2, 5, 8]
        load = fem.PointLoad(f, pts, values=np.array([[0.5, -0.25]] * 3), axisymmetric=True)
        return load, f, True, False

    yield "pointload-axisymmetric-ring", pointload_axi

    def formitem_kwargs(how):
        """keyword arguments held by the ITEM and changed through item.update (ramp item given by position or by name)"""
        f = hexfield()
        from felupe.math import ddot, grad, sym, trace

        @fem.Form(v=f, u=f)
        def bilinearform():
            def a(v, u, mu, lmbda):
                de, e = sym(grad(v)), sym(grad(u))
                return 2 * mu * ddot(de, e) + lmbda * trace(de) * trace(e)
            return [a]

        @fem.Form(v=f)
        def linearform():
            def L(v, mu, lmbda):
                e = sym(f[0].grad())
                return ddot(sym(grad(v)), 2 * mu * e + lmbda * trace(e) * np.eye(3).reshape(3, 3, 1, 1))
            return [L]

        item = fem.FormItem(bilinearform, linearform=linearform, kwargs={"mu": 1.0, "lmbda": 2.0}, ramp_item=1 if how == "index" else "lmbda")
        item.assemble.vector(f)
        item.update(3.5)
        return item, f, True, False

    for how in ("index", "name"):
        yield "formitem-kwargs-update-%s" % how, lambda how=how: formitem_kwargs(how)

    def formitem_load():
        """a linear form that does not depend on the unknowns (dead load) and no bilinear form: zero matrix"""
        f = hexfield()
        from felupe.math import dot

        @fem.Form(v=f)
        def linearform():
            def L(v):
                return dot(v, np.array([1.0, -2.0, 0.5]).reshape(3, 1, 1), mode=(1, 1))
            return [L]

        return fem.FormItem(linearform=linearform), f, True, False

    yield "formitem-dead-load", formitem_load

    def formitem_threefield():
        """the documented mixed-field pattern: (u, p, J) weak forms written with the expression API"""
        f = mixed("3d")
        umat = fem.ThreeFieldVariation(fem.NeoHooke(mu=1.25, bulk=5.0))
        from felupe.math import ddot, grad

        @fem.Form(v=f)
        def linearform():
            def L1(du, **kw):
                linearform.dW = kw["umat"].gradient(kw["field"].extract())
                return ddot(grad(du), linearform.dW[0])

            def L2(dp, **kw):
                return dp[0] * linearform.dW[1]

            def L3(dJ, **kw):
                return dJ[0] * linearform.dW[2]
            return [L1, L2, L3]

        @fem.Form(v=f, u=f)
        def bilinearform():
            def a11(du, Du, **kw):
                bilinearform.d2W = kw["umat"].hessian(kw["field"].extract())
                return ddot(ddot(grad(du), bilinearform.d2W[0], mode=(2, 4)), grad(Du))

            def a12(du, Dp, **kw):
                return ddot(grad(du), bilinearform.d2W[1]) * Dp[0]

            def a13(du, DJ, **kw):
                return ddot(grad(du), bilinearform.d2W[2]) * DJ[0]

            def a22(dp, Dp, **kw):
                return dp[0] * (0.0 if bilinearform.d2W[3] is None else bilinearform.d2W[3]) * Dp[0]       # absent block = zero

            def a23(dp, DJ, **kw):
                return dp[0] * bilinearform.d2W[4] * DJ[0]

            def a33(dJ, DJ, **kw):
                return dJ[0] * bilinearform.d2W[5] * DJ[0]
            return [a11, a12, a13, a22, a23, a33]

        return fem.FormItem(bilinearform, linearform, kwargs={"umat": umat, "field": f}), f, True, False

    yield "formitem-threefield", formitem_threefield


def c01(out, a):
    rng = np.random.RandomState(100 + a.seed)
    for name, build in cases(a.tier, rng):
        for rep in range(1 if a.tier == "quick" else 3):
            rid = "tangent-%s-%d" % (name, rep)
            if not out.want(rid):
                continue
            item, field, symmetric, settle = build()
            out.write(tangent_record(rid, item, field, symmetric, rng, settle=settle, ncols=8 if a.tier == "quick" else 24))
    # multiplier handling of fun_items / jac_items
    from felupe.tools._newton import fun_items, jac_items
    for mult in (None, -2.0, 3.0, 0.0):
        rid = "multiplier-%s" % mult
        if out.want(rid):
            m = perturb(fem.Cube(n=2), rng)
            f = state(fem.FieldContainer([fem.Field(fem.RegionHexahedron(m), dim=3)]), rng)
            item = fem.SolidBody(fem.NeoHooke(mu=1.25, bulk=5.0), f, multiplier=mult)
            r_items = fun_items([item], f)
            K_items = jac_items([item], f).toarray()
            out.write({"id": rid, "kind": "multiplier", "nt": mult is not None, "mult": int(mult) if mult is not None else 1,
                       "ritems": q(r_items, SK), "rasm": q(item.assemble.vector(f).toarray()[:, 0], SK),
                       "Kitems": q(K_items, SK), "Kasm": q(item.assemble.matrix(f).toarray(), SK)})


def c14(out, a):
    rng = np.random.RandomState(140 + a.seed)
    XS = 64
    reps = 2 if a.tier == "quick" else 8

    def positions(f, fd):
        x = f.region.mesh.points + f[0].values[:, :f.region.mesh.points.shape[1]]
        return qi(np.rint(x[:, :fd] * XS))

    for rep in range(reps):
        for mn in (["neohooke", "svk", "mooneyrivlin-ad"] if a.tier == "quick" else list(MATERIALS)):
            if mn == "linearelastic":
                continue              # small-strain law: not frame indifferent at finite rotations (no moment clause), forces still balance
            um = MATERIALS[mn]
            builders = {
                "hex": lambda: state(fem.FieldContainer([fem.Field(fem.RegionHexahedron(perturb(fem.Cube(n=3), rng)), dim=3)]), rng),
                "tet": lambda: state(fem.FieldContainer([fem.Field(fem.RegionTetra(perturb(fem.Cube(n=3), rng).triangulate()), dim=3)]), rng),
                "planestrain": lambda: state(fem.FieldContainer([fem.FieldPlaneStrain(fem.RegionQuad(perturb(fem.Rectangle(n=3), rng)), dim=2)]), rng),
                "axisymmetric": lambda: state(fem.FieldContainer([fem.FieldAxisymmetric(
                    fem.RegionQuad(perturb(fem.Rectangle(a=(0, 0.5), b=(1, 1.5), n=3), rng)), dim=2)]), rng),
                "mixed": lambda: state(fem.FieldsMixed(fem.RegionHexahedron(perturb(fem.Cube(n=3), rng)), n=3), rng),
            }
            for kind, mk in builders.items():
                rid = "balance-%s-%s-%d" % (kind, mn, rep)
                if not out.want(rid):
                    continue
                f = mk()
                umat = fem.ThreeFieldVariation(um()) if kind == "mixed" else um()
                if kind == "mixed" and mn != "neohooke":
                    continue
                item = fem.SolidBody(umat, f)
                fd = f[0].dim
                r = item.assemble.vector(f).toarray()[:, 0][: f[0].values.size]
                about = qi(rng.randint(-2, 3, size=fd) * XS)
                out.write({"id": rid, "kind": "balance", "nt": True, "fd": fd, "f": q(r, S), "x": positions(f, fd), "XS": XS,
                           "dirs": [1] if kind == "axisymmetric" else list(range(1, fd + 1)), "moment": kind != "axisymmetric",
                           "about": about})
        # loads
        rid = "resultant-bodyforce-%d" % rep
        if out.want(rid):
            m = perturb(fem.Cube(n=3), rng)
            f = state(fem.FieldContainer([fem.Field(fem.RegionHexahedron(m), dim=3)]), rng)
            vals, scale = rng.randint(-3, 4, size=3).astype(float), float(rng.randint(1, 4))
            item = fem.SolidBodyForce(f, values=vals, scale=scale)
            out.write({"id": rid, "kind": "resultant", "nt": True, "fd": 3, "f": q(item.assemble.vector(f).toarray()[:, 0], S),
                       "expect": q(vals * scale * 1.0, S)})
        # ... constructed with INTEGER zeros (the usual start of a ramp), then updated to non-integer values
        rid = "resultant-bodyforce-updated-%d" % rep
        if out.want(rid):
            m = perturb(fem.Cube(n=3), rng)
            f = state(fem.FieldContainer([fem.Field(fem.RegionHexahedron(m), dim=3)]), rng)
            vals, scale = rng.randint(-7, 8, size=3) / 4.0 + 0.125, float(rng.randint(1, 4))
            item = fem.SolidBodyForce(f, values=[0, 0, 0], scale=scale)
            item.assemble.vector(f)
            item.update(vals)
            out.write({"id": rid, "kind": "resultant", "nt": True, "fd": 3, "f": q(item.assemble.vector(f).toarray()[:, 0], S),
                       "expect": q(vals * scale * 1.0, S)})
        rid = "resultant-gravity-%d" % rep
        if out.want(rid):
            m = perturb(fem.Rectangle(b=(2, 1), n=3), rng)
            f = state(fem.FieldContainer([fem.FieldPlaneStrain(fem.RegionQuad(m), dim=2)]), rng)
            g, rho = rng.randint(-3, 4, size=2).astype(float), float(rng.randint(1, 4)) / 2
            item = fem.SolidBodyGravity(f, gravity=g, density=rho)
            out.write({"id": rid, "kind": "resultant", "nt": True, "fd": 2, "f": q(item.assemble.vector(f).toarray()[:, 0], S),
                       "expect": q(g * rho * 2.0, S)})
        rid = "pointload-%d" % rep
        if out.want(rid):
            f = state(fem.FieldContainer([fem.Field(fem.RegionHexahedron(fem.Cube(n=3)), dim=3)]), rng)
            pts = sorted(rng.choice(27, size=3, replace=False).tolist())
            vals = rng.randint(-4, 5, size=(3, 3)).astype(float)
            item = fem.PointLoad(f, pts, values=vals)
            exp = np.zeros((27, 3))
            exp[pts] = vals
            out.write({"id": rid, "kind": "pointload", "nt": True, "f": q(item.assemble.vector(f).toarray()[:, 0], S), "expectf": q(exp, S)})
        # point loads with every option and history: constructed / updated once / updated twice, plain or ring load (2 pi r),
        # applied on the first field of a mixed container; the law is stated for the values of the LAST update
        for axi in (False, True):
            for hist in (0, 1, 2):
                rid = "pointload-%s-upd%d-%d" % ("axi" if axi else "plain", hist, rep)
                if not out.want(rid):
                    continue
                mesh = fem.Rectangle(a=(0, 0.5), b=(1, 1.5), n=3)
                reg = fem.RegionQuad(mesh)
                f = fem.FieldContainer([(fem.FieldAxisymmetric if axi else fem.FieldPlaneStrain)(reg, dim=2)])
                pts = sorted(rng.choice(9, size=3, replace=False).tolist())
                seq = [rng.randint(-4, 5, size=(3, 2)).astype(float) for _ in range(hist + 1)]
                if hist:                       # integer start values, non-integer updates
                    seq[0] = seq[0].astype(int)
                    seq[-1] = seq[-1] + 0.5
                item = fem.PointLoad(f, pts, values=seq[0], axisymmetric=axi)
                item.assemble.vector(f)
                for v in seq[1:]:
                    item.update(v)
                out.write({"id": rid, "kind": "pointload2", "nt": True, "fd": 2, "f": q(item.assemble.vector(f).toarray()[:, 0], S),
                           "pts": [int(p_) + 1 for p_ in pts], "vals2": qi(2 * seq[-1]), "axi": bool(axi), "r8": qi(np.rint(mesh.points[pts, 1] * 8))})
        # follower pressure: on one face and on the closed surface
        for where in ("face", "closed", "face-kw", "face-update"):
            rid = "pressure-%s-%d" % (where, rep)
            if not out.want(rid):
                continue
            m = perturb(fem.Cube(n=3), rng)
            f = state(fem.FieldContainer([fem.Field(fem.RegionHexahedron(m), dim=3)]), rng)
            how = where.split("-")[1] if "-" in where else "ctor"          # how the pressure is supplied: constructor / call keyword / update()
            where = where.split("-")[0]
            kw = {} if where == "closed" else {"mask": m.points[:, 0] == 1.0}
            rb = fem.RegionHexahedronBoundary(m, **kw)
            fb = fem.FieldContainer([fem.Field(rb, dim=3)])
            fb.link(f)
            pnum = int(rng.randint(1, 8))
            if how == "ctor":
                item = fem.SolidBodyPressure(fb, pressure=pnum / 8.0)
                fvec = item.assemble.vector(fb)
            elif how == "kw":           # another value stored, the value of THIS call given as keyword
                item = fem.SolidBodyPressure(fb, pressure=(pnum + 3) / 8.0)
                item.assemble.vector(fb)
                fvec = item.assemble.vector(fb, pressure=pnum / 8.0)
            else:
                item = fem.SolidBodyPressure(fb, pressure=(pnum + 3) / 8.0)
                item.assemble.vector(fb)
                item.update(pnum / 8.0)
                fvec = item.assemble.vector(fb)
            out.write({"id": rid, "kind": "pressure", "nt": True, "fd": 3, "S": S, "XS": XS, "pnum": pnum, "pden": 8,
                       "f": q(fvec.toarray()[:, 0], S), "x": positions(f, 3), "faces": [qi(c) for c in rb.mesh.cells_faces],
                       "centre4": qi(np.rint(4 * XS * (m.points + f[0].values).mean(axis=0)))})
        # multi-point constraint forces are self-equilibrated
        rid = "balance-mpc-%d" % rep
        if out.want(rid):
            m = fem.Cube(n=3)
            m = fem.Mesh(np.vstack([m.points, [[2.0, 0.5, 0.5]]]), m.cells, m.cell_type)
            f = state(fem.FieldContainer([fem.Field(fem.RegionHexahedron(m), dim=3)]), rng)
            pts = np.arange(m.npoints)[m.points[:, 0] == 1]
            item = fem.MultiPointConstraint(f, points=pts, centerpoint=m.npoints - 1, skip=(0, 0, 0), multiplier=4.0)
            out.write({"id": rid, "kind": "balance", "nt": True, "fd": 3, "f": q(item.assemble.vector(f).toarray()[:, 0], S), "x": positions(f, 3),
                       "XS": XS, "dirs": [1, 2, 3], "moment": False, "about": [0, 0, 0]})
        # ... with every combination of skipped axes (forces along skipped axes vanish, the rest is self-equilibrated), and contact
        for skip in [(1, 0, 0), (0, 1, 0), (0, 0, 1), (1, 1, 0), (1, 0, 1), (0, 1, 1)]:
            for cls in ("constraint", "contact"):
                rid = "balance-mpc-%s-skip%d%d%d-%d" % ((cls,) + skip + (rep,))
                if not out.want(rid):
                    continue
                m = fem.Cube(n=3)
                m = fem.Mesh(np.vstack([m.points, [[0.5, 0.5, 0.5]]]), m.cells, m.cell_type)
                f = state(fem.FieldContainer([fem.Field(fem.RegionHexahedron(m), dim=3)]), rng, amp=1 / 4.0)
                pts = np.arange(m.npoints)[m.points[:, 0] == 1]
                Item = fem.MultiPointConstraint if cls == "constraint" else fem.MultiPointContact
                item = Item(f, points=pts, centerpoint=m.npoints - 1, skip=skip, multiplier=4.0)
                fv = item.assemble.vector(f).toarray()[:, 0]
                out.write({"id": rid, "kind": "balance", "nt": bool(np.any(fv != 0)), "fd": 3, "f": q(fv, S), "x": positions(f, 3),
                           "XS": XS, "dirs": [1, 2, 3], "moment": False, "about": [0, 0, 0], "skipped": [k + 1 for k in range(3) if skip[k]]})
        # mass matrices
        for kind in ("hex1", "quad", "hex", "hex-ni", "hex-arg", "hex-ni-arg"):
            rid = "mass-%s-%d" % (kind, rep)
            if not out.want(rid):
                continue
            rho = float(rng.randint(1, 5)) / 2
            if kind == "hex1":
                m = fem.Cube(b=(2, 1, 1), n=2)
                f = fem.FieldContainer([fem.Field(fem.RegionHexahedron(m), dim=3)])
                V = 2.0
            elif kind in ("hex", "hex-ni", "hex-arg", "hex-ni-arg"):
                m = perturb(fem.Cube(n=3), rng)
                f = fem.FieldContainer([fem.Field(fem.RegionHexahedron(m), dim=3)])
                V = 1.0
            else:
                m = perturb(fem.Rectangle(b=(2, 1), n=3), rng)
                f = fem.FieldContainer([fem.FieldPlaneStrain(fem.RegionQuad(m), dim=2)])
                V = 2.0
            # "-arg": the density of THIS call is given as argument and differs from the stored one
            rho_ctor = rho if not kind.endswith("-arg") else rho + 1.5
            if kind.startswith("hex-ni"):
                item = fem.SolidBodyNearlyIncompressible(fem.NeoHooke(mu=1.25), f, bulk=20.0, density=rho_ctor)
            else:
                item = fem.SolidBody(fem.NeoHooke(mu=1.25, bulk=2.0), f, density=rho_ctor)
            M = (item.assemble.mass(density=rho) if kind.endswith("-arg") else item.assemble.mass()).toarray()
            n = M.shape[0]
            fd = f[0].dim
            block = list(range(1, n + 1, fd))[:8]
            out.write({"id": rid, "kind": "mass", "nt": True, "n": int(n), "fd": fd, "M": q(M, S), "mass": q(rho * V, S)[0], "block": block})


def main():
    a = args()
    out = Out(a)
    which = dict(o.split("=", 1) for o in a.opt.split(";") if o).get("which", "c01")
    (c01 if which == "c01" else c14)(out, a)
    out.close()


if __name__ == "__main__":
    main()
