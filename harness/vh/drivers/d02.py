"""C02 driver: real IntegralForm / Form objects on regions whose shape-function, gradient and volume
arrays are overwritten with spec-issued small integers (exact float arithmetic), integer integrands,
dense logging of the assembled results.  NO judgement here (Assembly.tla recomputes the sums)."""
import itertools

import numpy as np

import felupe as fem

from .common import Out, args, qi


def inject(region, rng, grad=True):
    a = region.h.shape[0]
    q, c = region.h.shape[1], region.mesh.ncells
    d = region.mesh.dim
    region.h = rng.randint(-2, 3, size=(a, q, c)).astype(float)
    if grad and getattr(region, "dhdX", None) is not None:
        region.dhdX = rng.randint(-2, 3, size=(a, d, q, c)).astype(float)
    return region


def field_desc(f, with_grad=True):
    r = f.region
    a, q, c = r.h.shape
    d = {"np": int(r.mesh.npoints), "dim": int(f.dim), "cells": [qi(cl) for cl in r.mesh.cells],
         "h": [[qi(r.h[A, Q, :]) for Q in range(q)] for A in range(a)]}
    if with_grad and getattr(r, "dhdX", None) is not None and np.ndim(r.dhdX) == 4:
        d["dh"] = [[[qi(r.dhdX[A, J, Q, :]) for Q in range(q)] for J in range(r.dhdX.shape[1])] for A in range(a)]
    else:
        d["dh"] = []
    return d


def block(i, j, gv, gu, fun, vaxis=True, uaxis=True):
    if fun is None:
        return {"i": i, "j": j, "gv": bool(gv), "gu": bool(gu), "absent": True, "fshape": [], "fun": [], "vaxis": vaxis, "uaxis": uaxis}
    return {"i": i, "j": j, "gv": bool(gv), "gu": bool(gu), "absent": False, "fshape": list(fun.shape[:-2]), "fun": qi(fun),
            "vaxis": bool(vaxis), "uaxis": bool(uaxis)}


def dense(m):
    return m.toarray() if hasattr(m, "toarray") else np.asarray(m)


def rec(rid, kind, fields, blocks, w, obs, mode, gdim, axi=False, R=None, dV=None):
    q, c = w.shape
    r = {"id": rid, "kind": kind, "nt": True, "mode": mode, "axi": bool(axi), "gdim": gdim, "nq": int(q), "nc": int(c),
         "fields": fields, "blocks": blocks, "w": [qi(w[Q]) for Q in range(q)]}
    if axi:
        r["R"] = [qi(R[Q]) for Q in range(q)]
        r["dV"] = [qi(dV[Q]) for Q in range(q)]
    o = dense(obs)
    r["obs"] = [qi(np.rint(row)) for row in o] if kind == "bilinear" else qi(np.rint(o.ravel()))
    return r


def make_region(order, rng):
    mesh = fem.Rectangle(n=(3, 2))
    region = fem.Region(mesh, fem.element.Quad(), fem.GaussLegendre(order=order, dim=2))
    inject(region, rng)
    q, c = region.dV.shape
    region.dV = rng.randint(1, 4, size=(q, c)).astype(float)
    return region


def single_cases(out, rng, tier):
    for order in (0, 1):
        for dim in (1, 2, 3):
            for gv, gu in itertools.product([False, True], repeat=2):
                rid = "bilinear-o%d-d%d-gv%d-gu%d" % (order, dim, gv, gu)
                if not out.want(rid):
                    continue
                region = make_region(order, rng)
                q, c = region.dV.shape
                f = fem.Field(region, dim=dim)
                fc = fem.FieldContainer([f])
                shp = (dim,) + ((2,) if gv else ()) + (dim,) + ((2,) if gu else ())
                fun = rng.randint(-3, 4, size=shp + (q, c)).astype(float)
                K = fem.IntegralForm([fun], v=fc, dV=region.dV, u=fc, grad_v=[gv], grad_u=[gu]).assemble()
                out.write(rec(rid, "bilinear", [field_desc(f)], [block(1, 1, gv, gu, fun)], region.dV, K, 3, 2))
            for gv in (False, True):
                rid = "linear-o%d-d%d-gv%d" % (order, dim, gv)
                if not out.want(rid):
                    continue
                region = make_region(order, rng)
                q, c = region.dV.shape
                f = fem.Field(region, dim=dim)
                fc = fem.FieldContainer([f])
                shp = (dim,) + ((2,) if gv else ())
                fun = rng.randint(-3, 4, size=shp + (q, c)).astype(float)
                v = fem.IntegralForm([fun], v=fc, dV=region.dV, grad_v=[gv]).assemble()
                out.write(rec(rid, "linear", [field_desc(f)], [block(1, 0, gv, False, fun)], region.dV, v, 1, 2))
        # scalar field, integrand without component axes
        rid = "bilinear-o%d-scalar" % order
        if out.want(rid):
            region = make_region(order, rng)
            q, c = region.dV.shape
            f = fem.Field(region, dim=1)
            fc = fem.FieldContainer([f])
            fun = rng.randint(-3, 4, size=(q, c)).astype(float)
            K = fem.IntegralForm([fun], v=fc, dV=region.dV, u=fc, grad_v=[False], grad_u=[False]).assemble()
            out.write(rec(rid, "bilinear", [field_desc(f)], [block(1, 1, False, False, fun, vaxis=False, uaxis=False)], region.dV, K, 3, 2))
        rid = "linear-o%d-scalar" % order
        if out.want(rid):
            region = make_region(order, rng)
            q, c = region.dV.shape
            f = fem.Field(region, dim=1)
            fc = fem.FieldContainer([f])
            fun = rng.randint(-3, 4, size=(q, c)).astype(float)
            v = fem.IntegralForm([fun], v=fc, dV=region.dV, grad_v=[False]).assemble()
            out.write(rec(rid, "linear", [field_desc(f)], [block(1, 0, False, False, fun, vaxis=False)], region.dV, v, 1, 2))
        # plane strain: 3x3(x3x3) integrands trimmed to the in-plane part
        rid = "planestrain-o%d" % order
        if out.want(rid + "-linear"):
            region = make_region(order, rng)
            q, c = region.dV.shape
            f = fem.FieldPlaneStrain(region, dim=2)
            fc = fem.FieldContainer([f])
            fun = rng.randint(-3, 4, size=(3, 3, q, c)).astype(float)
            v = fem.IntegralForm([fun], v=fc, dV=region.dV).assemble()
            out.write(rec(rid + "-linear", "linear", [field_desc(f)], [block(1, 0, True, False, fun)], region.dV, v, 1, 2))
        if out.want(rid + "-bilinear"):
            region = make_region(order, rng)
            q, c = region.dV.shape
            f = fem.FieldPlaneStrain(region, dim=2)
            fc = fem.FieldContainer([f])
            fun = rng.randint(-3, 4, size=(3, 3, 3, 3, q, c)).astype(float)
            K = fem.IntegralForm([fun], v=fc, dV=region.dV, u=fc).assemble()
            out.write(rec(rid + "-bilinear", "bilinear", [field_desc(f)], [block(1, 1, True, True, fun)], region.dV, K, 3, 2))
        if out.want(rid + "-linear-value"):
            region = make_region(order, rng)
            q, c = region.dV.shape
            f = fem.FieldPlaneStrain(region, dim=2)
            fc = fem.FieldContainer([f])
            fun = rng.randint(-3, 4, size=(3, q, c)).astype(float)
            v = fem.IntegralForm([fun], v=fc, dV=region.dV, grad_v=[False]).assemble()
            out.write(rec(rid + "-linear-value", "linear", [field_desc(f)], [block(1, 0, False, False, fun)], region.dV, v, 1, 2))
        # axisymmetric: weight 2 pi R dV, hoop terms on the radial component
        for variant in ("linear", "bilinear", "linear-value", "bilinear-value-grad"):
            rid = "axisymmetric-o%d-%s" % (order, variant)
            if not out.want(rid):
                continue
            region = make_region(order, rng)
            q, c = region.dV.shape
            f = fem.FieldAxisymmetric(region, dim=2)
            f.radius = rng.choice([1.0, 2.0, 4.0], size=(q, c))
            fc = fem.FieldContainer([f])
            if variant == "linear-value":          # value test space: (in-plane 2 + hoop) components
                fun = rng.randint(-3, 4, size=(3, q, c)).astype(float)
                res = fem.IntegralForm([fun], v=fc, dV=region.dV, grad_v=[False]).assemble()
                blocks = [block(1, 0, False, False, fun)]
            elif variant == "bilinear-value-grad":  # value test / gradient trial space (follower loads)
                fun = rng.randint(-3, 4, size=(3, 3, 3, q, c)).astype(float)
                fun[2, 2, 2] *= 4.0
                res = fem.IntegralForm([fun], v=fc, dV=region.dV, u=fc, grad_v=[False], grad_u=[True]).assemble()
                blocks = [block(1, 1, False, True, fun)]
            elif variant == "linear":
                fun = rng.randint(-3, 4, size=(3, 3, q, c)).astype(float)
                res = fem.IntegralForm([fun], v=fc, dV=region.dV).assemble()
                blocks = [block(1, 0, True, False, fun)]
            else:
                fun = rng.randint(-3, 4, size=(3, 3, 3, 3, q, c)).astype(float)
                fun[2, 2, 2, 2] *= 4.0          # divisible by R^2 / R: exact integer sums
                res = fem.IntegralForm([fun], v=fc, dV=region.dV, u=fc).assemble()
                blocks = [block(1, 1, True, True, fun)]
            obs = res / (2 * np.pi)
            out.write(rec(rid, variant.split("-")[0], [field_desc(f)], blocks, f.radius * region.dV, obs, 3 if variant.startswith("bilinear") else 1, 2,
                          axi=True, R=f.radius, dV=region.dV))


def mixed_cases(out, rng, tier):
    nrep = 3 if tier == "quick" else 20
    for rep in range(nrep):
        for dual in (False, True):
            if dual:
                mesh = fem.Rectangle(n=(3, 2))
                region = fem.RegionQuad(mesh)
                fc = fem.FieldsMixed(region, n=2)
                inject(region, rng)
                inject(fc.fields[1].region, rng, grad=False)
                q, c = region.dV.shape
                region.dV = rng.randint(1, 4, size=(q, c)).astype(float)
            else:
                region = make_region(rep % 2, rng)
                q, c = region.dV.shape
                fc = fem.FieldContainer([fem.Field(region, dim=2), fem.Field(region, dim=1)])
            fields = [field_desc(fc.fields[0]), field_desc(fc.fields[1], with_grad=not dual)]
            R = lambda *shp: rng.randint(-2, 3, size=shp + (q, c)).astype(float)  # noqa: E731
            tag = "mixed-%s-%d" % ("dual" if dual else "same", rep)
            # mode 1: vector stack (second entry optionally None)
            for none in (False, True):
                rid = "%s-mode1-none%d" % (tag, none)
                if out.want(rid):
                    funs = [R(2, 2), None if none else R()]
                    v = fem.IntegralForm(funs, v=fc, dV=region.dV).assemble()
                    out.write(rec(rid, "linear", fields, [block(1, 0, True, False, funs[0]), block(2, 0, False, False, funs[1], vaxis=False)],
                                  region.dV, v, 1, 2))
            # mode 2: upper triangle (K_ji = K_ij^T)
            for none in (0, 1, 2):
                rid = "%s-mode2-none%d" % (tag, none)
                if out.want(rid):
                    funs = [R(2, 2, 2, 2), R(2, 2), R()]
                    if none:
                        funs[none] = None
                    K = fem.IntegralForm(funs, v=fc, dV=region.dV, u=fc).assemble()
                    out.write(rec(rid, "bilinear", fields, [block(1, 1, True, True, funs[0]), block(1, 2, True, False, funs[1], uaxis=False),
                                                            block(2, 2, False, False, funs[2], vaxis=False, uaxis=False)], region.dV, K, 2, 2))
            # mode 3: all four blocks
            for none in (0, 1, 2):
                rid = "%s-mode3-none%d" % (tag, none)
                if out.want(rid):
                    funs = [R(2, 2, 2, 2), R(2, 2), R(2, 2), R()]
                    if none:
                        funs[none] = None
                    K = fem.IntegralForm(funs, v=fc, dV=region.dV, u=fc).assemble()
                    out.write(rec(rid, "bilinear", fields,
                                  [block(1, 1, True, True, funs[0]), block(1, 2, True, False, funs[1], uaxis=False),
                                   block(2, 1, False, True, funs[2], vaxis=False), block(2, 2, False, False, funs[3], vaxis=False, uaxis=False)],
                                  region.dV, K, 3, 2))


class SerialThreads:
    """stands in for threading.Thread inside felupe's expression modules: collects the tasks of one
    fan-out and runs them serially in a prescribed order at the first join()"""
    order = None
    pool = []

    def __init__(self, target=None, args=(), kwargs=None):
        self.target, self.args, self.kwargs = target, args, kwargs or {}
        self.ran = False
        SerialThreads.pool.append(self)

    def start(self):
        pass

    def join(self):
        if SerialThreads.pool:
            tasks = SerialThreads.pool
            SerialThreads.pool = []
            idx = list(range(len(tasks)))
            order = SerialThreads.order(idx) if SerialThreads.order else idx
            for n in order:
                tasks[n].target(*tasks[n].args, **tasks[n].kwargs)


def same_cases(out, rng, tier):
    S = 2 ** 20
    # parallel flag of the array forms (threaded einsum)
    for gv, gu in itertools.product([False, True], repeat=2):
        rid = "same-parallel-gv%d-gu%d" % (gv, gu)
        if out.want(rid):
            region = make_region(1, rng)
            q, c = region.dV.shape
            fc = fem.FieldContainer([fem.Field(region, dim=2)])
            shp = (2,) + ((2,) if gv else ()) + (2,) + ((2,) if gu else ())
            fun = rng.randint(-3, 4, size=shp + (q, c)).astype(float)
            form = fem.IntegralForm([fun], v=fc, dV=region.dV, u=fc, grad_v=[gv], grad_u=[gu])
            out.write({"id": rid, "kind": "same", "nt": True, "what": "ParallelFlagIrrelevant", "tol": 0,
                       "a": qi(dense(form.assemble(parallel=False))), "b": qi(dense(form.assemble(parallel=True)))})
    # uniform-grid region = general region (genuine shape functions, integer integrand; fixed point 2^-20)
    for n in ((3, 3), (4, 2)) if tier == "quick" else ((3, 3), (4, 2), (5, 4), (2, 6)):
        for cls, mk, dim in ((fem.RegionQuad, fem.Rectangle, 2), (fem.RegionHexahedron, fem.Cube, 3)):
            rid = "same-uniform-%s-%s" % (cls.__name__, "x".join(map(str, n)))
            if out.want(rid):
                mesh = mk(n=n + ((2,) if dim == 3 else ()))
                rg, ru = cls(mesh), cls(mesh, uniform=True)
                q, c = rg.dV.shape
                fun = rng.randint(-3, 4, size=(dim, dim, dim, dim, q, c)).astype(float)
                fg = fem.FieldContainer([fem.Field(rg, dim=dim)])
                fu = fem.FieldContainer([fem.Field(ru, dim=dim)])
                Kg = fem.IntegralForm([fun], v=fg, dV=rg.dV, u=fg).assemble()
                Ku = fem.IntegralForm([fun], v=fu, dV=ru.dV, u=fu).assemble()
                out.write({"id": rid, "kind": "same", "nt": True, "what": "UniformEqualsGeneral", "tol": 2,
                           "a": qi(np.rint(dense(Kg) * S)), "b": qi(np.rint(dense(Ku) * S))})
    # expression API = array form; sym / parallel flags; serial thread schedules
    import felupe.assembly.expression._bilinear as EB
    import felupe.assembly.expression._linear as EL
    from felupe.math import ddot
    for dim in (1, 2):
        region = make_region(1, rng)
        q, c = region.dV.shape
        f = fem.Field(region, dim=dim)
        fc = fem.FieldContainer([f])
        C = rng.randint(-2, 3, size=(dim, 2, dim, 2)).astype(float)
        C = C + np.einsum("iJkL->kLiJ", C)          # major symmetry: a symmetric weak form (precondition of sym=True)
        fun = np.broadcast_to(C[..., None, None], C.shape + (q, c)).copy()
        Kref = dense(fem.IntegralForm([fun], v=fc, dV=region.dV, u=fc).assemble())

        def weak(v, u, C=C):
            return np.einsum("iJ...,iJkL,kL...->...", v.grad, C, u.grad)

        def lin(v, fun=fun[:, :, 0, 0]):
            return np.einsum("iJ...,iJ...->...", v.grad, fun)

        vref = dense(fem.IntegralForm([fun[:, :, 0, 0]], v=fc, dV=region.dV).assemble()).ravel()
        for sym, par in itertools.product([False, True], repeat=2):
            rid = "same-form-d%d-sym%d-par%d" % (dim, sym, par)
            if out.want(rid):
                form = fem.Form(v=fc, u=fc, dx=region.dV, kwargs={})(lambda: [weak])
                K = dense(form.assemble(parallel=par, sym=sym))
                out.write({"id": rid, "kind": "same", "nt": True, "what": "ExprEqualsArray", "tol": 0, "a": qi(Kref), "b": qi(K)})
        for par in (False, True):
            rid = "same-linearform-d%d-par%d" % (dim, par)
            if out.want(rid):
                form = fem.Form(v=fc, dx=region.dV, kwargs={})(lambda: [lin])
                out.write({"id": rid, "kind": "same", "nt": True, "what": "ExprEqualsArray", "tol": 0, "a": qi(vref),
                           "b": qi(dense(form.assemble(parallel=par)).ravel())})
        # serial schedules of the per-basis-function tasks
        orders = {"identity": lambda i: i, "reversed": lambda i: i[::-1],
                  "shuffle1": lambda i: list(np.random.RandomState(1).permutation(i)),
                  "shuffle2": lambda i: list(np.random.RandomState(2).permutation(i)),
                  "oddeven": lambda i: i[1::2] + i[0::2]}
        for name, order in orders.items():
            for sym in (False, True):
                rid = "same-schedule-d%d-%s-sym%d" % (dim, name, sym)
                if out.want(rid):
                    old = (EB.Thread, EL.Thread)
                    EB.Thread = EL.Thread = SerialThreads
                    SerialThreads.order = staticmethod(order)
                    try:
                        form = fem.Form(v=fc, u=fc, dx=region.dV, kwargs={})(lambda: [weak])
                        K = dense(form.assemble(parallel=True, sym=sym))
                    finally:
                        EB.Thread, EL.Thread = old
                        SerialThreads.order = None
                    out.write({"id": rid, "kind": "same", "nt": True, "what": "ScheduleIndependent", "tol": 0, "a": qi(Kref), "b": qi(K)})


def main():
    a = args()
    out = Out(a)
    rng = np.random.RandomState(200 + a.seed)
    single_cases(out, rng, a.tier)
    mixed_cases(out, rng, a.tier)
    same_cases(out, rng, a.tier)
    out.close()


if __name__ == "__main__":
    main()
