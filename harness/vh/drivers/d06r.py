"""C06 driver (reload part): executes every program exported by ReloadMC on a real Mesh and real Regions and logs, per executed
step, the operation and the observed state before and after: evaluation flags, which mesh object the region holds, and the
points VERSION each cached array stems from (recognised by comparing with freshly constructed regions).  NO judgement here."""
import copy
import hashlib
import warnings

import numpy as np

warnings.filterwarnings("ignore")

import felupe as fem  # noqa: E402

from .common import Out, args  # noqa: E402


def dig(a):
    return hashlib.md5(np.ascontiguousarray(np.asarray(a, float)).tobytes()).hexdigest()


BASE = fem.Rectangle(n=3)
ELEMENT, QUAD = fem.Quad(), fem.GaussLegendre(order=1, dim=2)
_POINTS, _ORACLE = {}, {}


def points(v):
    """the point array of version v (version 1 = the generated mesh); distinct lattice perturbations of all points"""
    if v not in _POINTS:
        rng = np.random.RandomState(6000 + v)
        _POINTS[v] = BASE.points + (0 if v == 1 else 1) * rng.randint(-3, 4, size=BASE.points.shape) / 64.0
    return _POINTS[v]


def oracle(v):
    """digests of dV / d2hdXdX of regions constructed from scratch on the points of version v (general and uniform storage)"""
    if v not in _ORACLE:
        o = {}
        for u in (False, True):
            r = fem.Region(fem.Mesh(points(v).copy(), BASE.cells.copy(), BASE.cell_type), fem.Quad(), fem.GaussLegendre(order=1, dim=2),
                           grad=True, hess=True, uniform=u)
            o[("dV", dig(r.dV))] = v
            o[("d2hdXdX", dig(r.d2hdXdX))] = v
        _ORACLE[v] = o
    return _ORACLE[v]


def version_of(kind, arr, upto):
    d = dig(arr)
    hits = [v for v in range(1, upto + 1) if (kind, d) in oracle(v)]
    return hits[-1] if len(hits) == 1 else -1


def points_version(p, upto):
    hits = [v for v in range(1, upto + 1) if p.shape == points(v).shape and np.array_equal(p, points(v))]
    return hits[-1] if len(hits) == 1 else -1


class World:
    def __init__(self):
        self.m0 = fem.Mesh(points(1).copy(), BASE.cells.copy(), BASE.cell_type)
        self.pv = 1
        self.reg = {}


def observe(w):
    reg = {}
    for name, r in sorted(w.reg.items()):
        reg[name] = {"grad": bool(r.evaluate_gradient), "hess": bool(r.evaluate_hessian), "uniform": bool(r.uniform),
                     "own": 0 if r.mesh is w.m0 else points_version(r.mesh.points, w.pv),
                     "geo": version_of("dV", r.dV, w.pv) if hasattr(r, "dV") else 0,
                     "hes": version_of("d2hdXdX", r.d2hdXdX, w.pv) if hasattr(r, "d2hdXdX") else 0}
    return {"pv": points_version(w.m0.points, w.pv), "reg": reg}


def tf(x):
    return None if x == "none" else (x == "T")


def parse(tok):
    k = tok.split(":")
    if k[0] == "create":
        return {"op": "create", "r": k[1], "grad": k[2], "hess": k[3], "uniform": k[4]}
    if k[0] == "reload":
        return {"op": "reload", "r": k[1], "grad": k[2], "hess": k[3], "uniform": k[4]}
    if k[0] == "update":
        return {"op": "update", "cb": k[1]}
    if k[0] == "copy":
        return {"op": "copy", "r": k[1], "t": k[2], "grad": k[3], "hess": k[4], "uniform": k[5]}
    raise ValueError(tok)


def execute(w, op):
    o = op["op"]
    if o == "create":
        w.reg[op["r"]] = fem.Region(w.m0, fem.Quad(), fem.GaussLegendre(order=1, dim=2), grad=tf(op["grad"]), hess=tf(op["hess"]),
                                    uniform=tf(op["uniform"]))
    elif o == "reload":
        kw = {k: tf(op[k]) for k in ("grad", "hess", "uniform") if op[k] != "none"}
        w.reg[op["r"]].reload(**kw)
    elif o == "update":
        w.pv += 1
        new = points(w.pv).copy()
        if op["cb"] == "none":
            w.m0.update(points=new)
        else:
            w.m0.update(points=new, callback=w.reg[op["cb"]].reload)
    elif o == "copy":
        kw = {k: tf(op[k]) for k in ("grad", "hess", "uniform") if op[k] != "none"}
        w.reg[op["t"]] = w.reg[op["r"]].copy(**kw)
    else:
        raise ValueError(o)


def main():
    a = args()
    opts = dict(o.split("=", 1) for o in a.opt.split(";") if o)
    out = Out(a)
    with open(opts["programs"]) as f:
        programs = sorted({ln.strip().strip('"').split("|", 1)[1] for ln in f if "PROGRAM|" in ln})
    limit = int(opts.get("limit", "0"))
    if limit and len(programs) > limit:
        rng = np.random.RandomState(a.seed)
        short = [p for p in programs if p.count(",") <= 1]
        long_ = [p for p in programs if p.count(",") > 1]
        programs = sorted(short + list(rng.choice(long_, size=max(0, limit - len(short)), replace=False)))
    cache = {"": World()}
    for prog in programs:
        ops = prog.split(",")
        for n in range(1, len(ops) + 1):
            key = ",".join(ops[:n])
            if key in cache:
                continue
            parent = cache.get(",".join(ops[:n - 1]))
            if parent is None:
                cache[key] = None
                continue
            w = copy.deepcopy(parent)          # one deepcopy keeps "region holds m0" relations
            op = parse(ops[n - 1])
            ok = []

            def step(w=w, op=op, key=key):
                pre = observe(w)
                execute(w, op)
                ok.append(1)
                return {"id": key, "kind": "reloadstep", "nt": True, "op": op, "pre": pre, "post": observe(w)}

            if out.want(key):
                out.attempt(key, step)
            else:
                try:
                    execute(w, op)
                    ok.append(1)
                except Exception:
                    pass
            cache[key] = w if ok else None
    out.close()


if __name__ == "__main__":
    main()
