"""C16 / C20 driver (mesh container part): executes every program exported by BagMC on real MeshContainers and logs, per executed
step, the operation and the observed heap before and after (containers -> meshes -> point array id / cells / type; arrays as
lattice coordinates), the argument meshes and the returned mesh.  NO judgement here (BagTrace.tla)."""
import copy
import warnings

import numpy as np

warnings.filterwarnings("ignore")

import felupe as fem  # noqa: E402

from .common import Out, args, qi  # noqa: E402

SC = 8


def base(name):
    if name == "A":
        return fem.Rectangle(a=(0, 0), b=(1, 1), n=2)
    if name == "B":
        return fem.Rectangle(a=(1, 0), b=(2, 1), n=(2, 3))          # shares the edge x = 1 with A (plus a hanging mid-point)
    if name == "T":
        return fem.Rectangle(a=(0, 1), b=(1, 2), n=2).triangulate()   # shares the edge y = 1 with A
    raise ValueError(name)


class Heap:
    def __init__(self):
        self.ids = {}
        self.arrays = []

    def aid(self, arr):
        key = (arr.__array_interface__["data"][0], arr.shape, arr.strides)
        if key not in self.ids:
            self.ids[key] = len(self.ids) + 1
            p = np.asarray(arr, float) * SC
            pi = np.rint(p)
            if np.abs(p - pi).max(initial=0) > 1e-6:
                raise ValueError("off lattice")
            self.arrays.append([self.ids[key], [qi(x) for x in pi]])
        return self.ids[key]

    def mesh(self, m):
        return {"pts": self.aid(m.points), "cells": [qi(c) for c in m.cells], "type": str(m.cell_type)}


def observe(world, extra=None):
    h = Heap()
    cont = {}
    for name in sorted(world):
        c = world[name]
        cont[name] = {"points": h.aid(c.points), "meshes": [h.mesh(m) for m in c.meshes]}
    ret = h.mesh(extra) if extra is not None else None
    return {"cont": cont, "arrays": h.arrays}, ret


def argobs(meshes):
    h = Heap()
    return {"arrays": None, "meshes": [h.mesh(m) for m in meshes], "heap": h}


def parse(tok):
    k = tok.split(":")
    if k[0] == "new":
        return {"op": "new", "c": k[1], "a": k[2], "b": k[3], "merge": k[4] == "1"}
    if k[0] == "append":
        return {"op": "append", "c": k[1], "a": k[2]}
    if k[0] == "pop":
        return {"op": "pop", "c": k[1], "i": int(k[2])}
    if k[0] in ("merge", "stack", "asvertex"):
        return {"op": k[0], "c": k[1]}
    if k[0] == "copy":
        return {"op": "copy", "c": k[1], "t": k[2]}
    raise ValueError(tok)


def execute(world, op):
    """returns (argument meshes, returned mesh or None)"""
    o = op["op"]
    if o == "new":
        ms = [base(op["a"])] + ([base(op["b"])] if op["b"] != "-" else [])
        world[op["c"]] = fem.MeshContainer(ms, merge=op["merge"], decimals=6 if op["merge"] else None)
        return ms, None
    c = world[op["c"]]
    if o == "append":
        m = base(op["a"])
        if len(c.meshes) % 2:
            c += m              # both spellings
        else:
            c.append(m)
        return [m], None
    if o == "pop":
        return [], c.pop(op["i"])
    if o == "merge":
        c.merge_duplicate_points(decimals=6)
        return [], None
    if o == "stack":
        return [], c.stack()
    if o == "copy":
        world[op["t"]] = c.copy()
        return [], None
    if o == "asvertex":
        return [], c.as_vertex_mesh()
    raise ValueError(o)


def main():
    a = args()
    opts = dict(o.split("=", 1) for o in a.opt.split(";") if o)
    out = Out(a)
    with open(opts["programs"]) as f:
        programs = sorted({ln.strip().strip('"').split("|", 1)[1] for ln in f if "PROGRAM|" in ln})
    limit = int(opts.get("limit", "0"))
    if limit and len(programs) > limit:
        rng = np.random.RandomState(a.seed)
        short = [p for p in programs if p.count(",") <= 1]
        long_ = [p for p in programs if p.count(",") > 1]
        programs = sorted(short + list(rng.choice(long_, size=max(0, limit - len(short)), replace=False)))
    cache = {"": {}}
    for prog in programs:
        ops = prog.split(",")
        for n in range(1, len(ops) + 1):
            key = ",".join(ops[:n])
            if key in cache:
                continue
            parent = cache.get(",".join(ops[:n - 1]))
            if parent is None:
                cache[key] = None
                continue
            world = copy.deepcopy(parent)
            op = parse(ops[n - 1])
            ok = []

            def step(world=world, op=op, key=key):
                pre, _ = observe(world)
                argms, ret = execute(world, op)
                ok.append(1)
                post, retobs = observe(world, ret)
                ah = Heap()
                rec = {"id": key, "kind": "bagstep", "nt": True, "op": op, "pre": pre, "post": post,
                       "args": [ah.mesh(m) for m in argms], "argheap": {"arrays": ah.arrays}}
                if retobs is not None:
                    rec["ret"] = retobs
                return rec

            if out.want(key):
                out.attempt(key, step)
            else:
                try:
                    execute(world, op)
                    ok.append(1)
                except Exception:
                    pass
            cache[key] = world if ok else None
    out.close()


if __name__ == "__main__":
    main()
