"""C04 driver: evaluates the real element classes on spec-issued lattices.  NO judgement here."""
import itertools

import numpy as np

import felupe as fem
import felupe.element as el

from .common import Out, args, q


def lattice_record(rid, e, family, order, nnodal, bubbles, m, ext, S, space="P"):
    dim = e.points.shape[1]
    if family == "cube":
        lo, stepnum, stepden = -1.0, 2, m
        if m % 2 == 0:
            stepnum, stepden = 1, m // 2
    else:
        lo, stepnum, stepden = 0.0, 1, m
    step = stepnum / stepden
    idx = list(itertools.product(range(-ext, m + ext + 1), repeat=dim))
    has_h = hasattr(e, "hessian")
    pts = []
    for I in idx:
        if sum(1 for i in I if i < 0 or i > m) > 1:      # never read by a law (Element.tla: Used)
            pts.append({"h": [], "g": [], "H": []} if has_h else {"h": [], "g": []})
            continue
        r = np.array([lo + i * step for i in I])
        inner = all(0 <= i <= m for i in I)
        rec = {"h": q(e.function(r), S), "g": q(e.gradient(r), S) if (has_h or inner) else []}
        if has_h:
            rec["H"] = q(e.hessian(r), S)
        pts.append(rec)
    nn = max(len(p["h"]) for p in pts)
    nodes = []
    for p in e.points[:nnodal]:
        t = (np.asarray(p) - lo) / step
        ti = np.rint(t)
        nodes.append([int(v) if abs(v - w) < 1e-9 else -1000 for v, w in zip(ti, t)])
    return {"id": rid, "kind": "lattice", "nt": True, "family": family, "dim": dim, "p": order, "nn": nn,
            "nnodal": nnodal, "nodes": nodes, "bubbles": bubbles, "m": m, "ext": ext, "S": S,
            "stepnum": stepnum, "stepden": stepden, "hasH": bool(has_h), "hmax": (2 ** 31 - 1) // (128 * stepden),
            "cmax": (2 ** 31 - 1) // (S * 64), "space": space,
            "pts": pts}


def perm_record(rid, order, dim, S):
    eP = el.ArbitraryOrderLagrange(order=order, dim=dim, permute=True)
    eU = el.ArbitraryOrderLagrange(order=order, dim=dim, permute=False)
    nn = len(eP.points)

    def nidx(e):
        return [[int(v) for v in np.rint((np.asarray(p) + 1) * order / 2)] for p in e.points]

    rng = np.random.RandomState(1000 * order + dim)
    probes = [rng.randint(-8, 9, size=dim) / 8.0 for _ in range(3)]
    return {"id": rid, "kind": "perm", "nt": True, "dim": dim, "p": order, "nn": nn, "S": S,
            "nodesP": nidx(eP), "nodesU": nidx(eU),
            "hP": [q(eP.function(r), S) for r in probes], "hU": [q(eU.function(r), S) for r in probes],
            "gP": [q(eP.gradient(r), S) for r in probes], "gU": [q(eU.gradient(r), S) for r in probes],
            "hn": [q(eP.function(p), S) for p in eP.points]}


def main():
    a = args()
    out = Out(a)
    S = 2 ** 17
    hand = [
        ("Vertex", el.Vertex(), "cube", 0, 1, []),
        ("Line", el.Line(), "cube", 1, 2, []),
        ("Quad", el.Quad(), "cube", 1, 4, []),
        ("ConstantQuad", el.ConstantQuad(), "cube", 0, 1, []),
        ("QuadraticQuad", el.QuadraticQuad(), "cube", 2, 8, []),
        ("BiQuadraticQuad", el.BiQuadraticQuad(), "cube", 2, 9, []),
        ("Hexahedron", el.Hexahedron(), "cube", 1, 8, []),
        ("ConstantHexahedron", el.ConstantHexahedron(), "cube", 0, 1, []),
        ("QuadraticHexahedron", el.QuadraticHexahedron(), "cube", 2, 20, []),
        ("TriQuadraticHexahedron", el.TriQuadraticHexahedron(), "cube", 2, 27, []),
        ("Triangle", el.Triangle(), "simplex", 1, 3, []),
        ("QuadraticTriangle", el.QuadraticTriangle(), "simplex", 2, 6, []),
        ("TriangleMINI", el.TriangleMINI(), "simplex", 1, 3, [4]),
        ("TriangleMINI-b2", el.TriangleMINI(bubble_multiplier=2.0), "simplex", 1, 3, [4]),
        ("TriangleMINI-b0.25", el.TriangleMINI(bubble_multiplier=0.25), "simplex", 1, 3, [4]),
        ("Tetra", el.Tetra(), "simplex", 1, 4, []),
        ("QuadraticTetra", el.QuadraticTetra(), "simplex", 2, 10, []),
        ("TetraMINI", el.TetraMINI(), "simplex", 1, 4, [5]),
        ("TetraMINI-b2", el.TetraMINI(bubble_multiplier=2.0), "simplex", 1, 4, [5]),
        ("TetraMINI-b0.25", el.TetraMINI(bubble_multiplier=0.25), "simplex", 1, 4, [5]),
    ]
    for name, e, family, order, nnodal, bubbles in hand:
        if out.want(name):
            out.write(lattice_record(name, e, family, order, nnodal, bubbles, 4, 3, S))
    # arbitrary-order Lagrange: lattice records (orders per tier) and permutation records (all orders)
    if a.tier == "quick":
        lat = [(p, 1) for p in range(1, 7)] + [(p, 2) for p in range(1, 5)] + [(1, 3), (2, 3)]
    else:
        lat = [(p, 1) for p in range(1, 7)] + [(p, 2) for p in range(1, 7)] + [(p, 3) for p in range(1, 5)]
    for p, d in lat:
        for permute in (True, False):
            rid = "Lagrange-p%d-d%d-%s" % (p, d, "perm" if permute else "raw")
            if not out.want(rid):
                continue
            e = el.ArbitraryOrderLagrange(order=p, dim=d, permute=permute)
            Sl = {1: 2 ** 20, 2: 2 ** 20, 3: 2 ** 18, 4: 2 ** 17, 5: 2 ** 15, 6: 2 ** 14}[p]
            out.write(lattice_record(rid, e, "cube", p, len(e.points), [], 2 * p, 3, Sl, space="Q"))
    for d in (1, 2, 3):
        for p in range(1, 7):
            rid = "LagrangePerm-p%d-d%d" % (p, d)
            if out.want(rid):
                out.write(perm_record(rid, p, d, 2 ** 20))
    out.close()


if __name__ == "__main__":
    main()
