"""C16 driver: runs every program exported by MeshOpsMC (generator seed + sequence of operations)
through the real Mesh methods and logs, once per distinct program prefix, the parent mesh(es) and
the child mesh with integer (x8) coordinates.  NO judgement here (MeshOps.tla)."""
import numpy as np

import felupe as fem

from .common import Out, args, qi

SC = 8


class Inexact(Exception):
    pass


NCORNER = {"line": 2, "triangle": 3, "quad": 4, "tetra": 4, "hexahedron": 8}


def mesh_rec(m, as_type=None, scale=1):
    """as_type: cell type to log for point sets without one (corner skeleton of the parent); scale: extra integer factor on the coordinates"""
    p = np.asarray(m.points, dtype=float) * SC * scale
    pi = np.rint(p)
    if np.abs(p - pi).max() > 1e-6:
        raise Inexact()
    return {"type": str(as_type or m.cell_type), "dim": int(m.points.shape[1]), "pts": [qi(x) for x in pi], "cells": [qi(c) for c in m.cells]}


def seed(name):
    if name == "Line":
        return fem.mesh.Line(a=0, b=2, n=3), {"extent": 2 * SC}
    if name == "Rectangle":
        return fem.Rectangle(a=(1, 1), b=(3, 2), n=(3, 2)), {"extent": 2 * 1 * SC ** 2}
    if name == "Cube":
        return fem.Cube(a=(0, 0, 0), b=(2, 1, 1), n=(3, 2, 2)), {"extent": 2 * SC ** 3}
    if name == "Grid2":
        return fem.Grid(np.array([1.0, 2.0, 4.0]), np.array([1.0, 2.0])), {"extent": 3 * 1 * SC ** 2}
    if name == "Grid3":
        return fem.Grid(np.array([0.0, 1.0, 3.0]), np.array([0.0, 2.0]), np.array([0.0, 1.0])), {"extent": 3 * 2 * 1 * SC ** 3}
    if name == "GridInt2":
        return fem.Grid(np.array([1, 2, 4]), np.array([1, 2])), {"extent": 3 * 1 * SC ** 2}
    if name == "GridInt3":
        return fem.Grid(np.array([0, 1, 3]), np.array([0, 2]), np.array([0, 1])), {"extent": 3 * 2 * 1 * SC ** 3}
    if name == "Trapezoid":        # quads with non-parallel opposite edges (width tapers from 2 to 1 over the height)
        m = fem.Rectangle(a=(1, 1), b=(3, 2), n=(2, 2))          # one cell with integer corners (1,1) (3,1) (2,2) (1,2): stays on the
        p = m.points.copy()                                      # 1/8 lattice under mid-point insertion and inside the magnitude
        p[:, 0] = 1 + (p[:, 0] - 1) * (1 - (p[:, 1] - 1) * 0.5)  # range of the Rectangle seed (32-bit volumes at depth 3)
        return fem.Mesh(p, m.cells, m.cell_type), {"extent": 3 * SC ** 2 // 2}
    if name == "TrapezoidPrism":   # planar-faced hexahedra whose edges along the second natural direction are not parallel
        m = fem.Cube(a=(0, 0, 0), b=(2, 1, 1), n=(2, 2, 2))
        p = m.points.copy()
        p[:, 0] = p[:, 0] * (1 - p[:, 1] * 0.5)
        return fem.Mesh(p, m.cells, m.cell_type), {"extent": 3 * SC ** 3 // 2}
    raise ValueError(name)


def apply(op, m):
    """returns list of (opname, args, parents, child) steps; the last child is the program state"""
    dim = m.points.shape[1]
    k = op.split(":")
    if k[0] == "rotate90":
        return [("rotate", {}, [m], m.rotate(90, axis=int(k[1])))]
    if k[0] == "translate":
        return [("translate", {}, [m], m.translate(1.0, axis=int(k[1])))]
    if k[0] == "mirror":
        n = [0.0] * 3
        n[int(k[1])] = 1.0
        return [("mirror", {}, [m], m.mirror(normal=n))]
    if k[0] == "mirrordiag":
        return [("mirror", {}, [m], m.mirror(normal=[1.0, 1.0, 0.0]))]
    if k[0] == "flip2":
        f1 = m.flip()
        return [("flip1", {}, [m], f1), ("flip2", {}, [m], f1.flip())]
    if k[0] == "triangulate":
        return [("triangulate", {"mode": int(k[1])}, [m], m.triangulate(mode=int(k[1])))]
    if k[0] == "expand":
        n = int(k[1])
        return [("expand", {"z": (n - 1) * SC}, [m], m.expand(n=n, z=float(n - 1)))]
    if k[0] == "revolve":
        ax, n = int(k[1]), int(k[2])
        # right-handed sweep of a section on the positive side of the axis: positive angle about axis 0,
        # negative angle about axis 1 (as in docs/howto/meshgen.rst: rect.revolve(n=19, phi=-180, axis=1))
        phi = 90.0 * (n - 1) * (1 if ax == 0 else -1)
        return [("revolve", {"axis": ax, "nseg": n - 1}, [m], m.revolve(n=n, phi=phi, axis=ax))]
    if k[0] == "midedges":
        return [("midpoints", {"edges": True, "faces": False, "volumes": False}, [m], m.add_midpoints_edges())]
    if k[0] == "convertfull":
        hexa = m.cell_type == "hexahedron"
        return [("midpoints", {"edges": True, "faces": True, "volumes": bool(hexa)}, [m],
                 m.convert(order=2, calc_points=True, calc_midfaces=True, calc_midvolumes=bool(hexa)))]
    # simplex face / cell centroids are thirds / quarters: the whole record (parents and child) is logged on a 3x / 4x finer lattice
    if k[0] == "midfaces":
        return [("midpoints", {"edges": False, "faces": True, "volumes": False, "as_type": m.cell_type,
                               "scale": 3 if m.cell_type in ("triangle", "tetra") else 1}, [m], m.add_midpoints_faces())]
    if k[0] == "midvolumes":
        return [("midpoints", {"edges": False, "faces": False, "volumes": True, "as_type": m.cell_type,
                               "scale": 4 if m.cell_type == "tetra" else 1}, [m], m.add_midpoints_volumes())]
    if k[0] == "centroids":
        return [("centroids", {"as_type": m.cell_type, "scale": 3 if m.cell_type == "triangle" else 1}, [m], m.convert(order=0, calc_points=True))]
    if k[0] == "fillbetween":
        a2 = fem.Mesh(np.pad(m.points, ((0, 0), (0, 1))), m.cells, m.cell_type)
        b2 = fem.Mesh(a2.points + [2.0, 2.0], m.cells, m.cell_type)            # sheared copy two units above (integer layers)
        return [("fillbetween", {"n": int(k[1])}, [a2, b2], a2.fill_between(b2, n=int(k[1])))]
    if k[0] == "dupcells":
        cat = fem.mesh.concatenate([m, m]).merge_duplicate_points(decimals=6)
        return [("dupcells", {}, [m], cat.merge_duplicate_cells())]
    if k[0] == "concatmerge":
        shift = float(m.points[:, 0].max() - m.points[:, 0].min())
        m2 = m.translate(shift, axis=0)
        cat = fem.mesh.concatenate([m, m2])
        return [("concatenate", {}, [m, m2], cat), ("merge", {"decimals": 6}, [cat], cat.merge_duplicate_points(decimals=6))]
    if k[0] == "stack":
        h = max(1, m.ncells // 2)
        a = fem.Mesh(m.points, m.cells[:h], m.cell_type)
        if m.ncells <= h:            # a single cell cannot be split in two blocks: stack of one block
            return [("stack", {}, [a], fem.mesh.stack([a]))]
        b = fem.Mesh(m.points, m.cells[h:], m.cell_type)
        return [("stack", {}, [a, b], fem.mesh.stack([a, b]))]
    if k[0] == "disconnect":
        return [("disconnect", {}, [m], m.disconnect())]
    raise ValueError(op)


def main():
    a = args()
    opts = dict(o.split("=", 1) for o in a.opt.split(";") if o)
    out = Out(a)
    with open(opts["programs"]) as f:
        programs = sorted({ln.strip().strip('"').split("|")[1] for ln in f if "PROGRAM|" in ln})
    limit = int(opts.get("limit", "0"))
    if limit and len(programs) > limit:
        rng = np.random.RandomState(a.seed)
        short = [p for p in programs if p.count(",") <= 2]
        long_ = [p for p in programs if p.count(",") > 2]
        programs = sorted(short + list(rng.choice(long_, size=max(0, limit - len(short)), replace=False)))
    cache = {}
    skipped = 0
    for prog in programs:
        ops = prog.split(",")
        for n in range(1, len(ops) + 1):
            key = ",".join(ops[:n])
            if key in cache:
                continue
            try:
                if n == 1:
                    m, ar = seed(ops[0])
                    cache[key] = m
                    if out.want(key):
                        out.write({"id": key, "op": "generate", "nt": True, "args": ar, "parents": [], "child": mesh_rec(m)})
                else:
                    parent = cache[",".join(ops[:n - 1])]
                    if parent is None:
                        cache[key] = None
                        continue
                    steps = apply(ops[n - 1], parent)
                    cache[key] = steps[-1][3]
                    for s, (opname, ar, parents, child) in enumerate(steps):
                        rid = key if s == len(steps) - 1 else key + "#" + opname
                        if out.want(rid):
                            out.write({"id": rid, "op": opname, "nt": True, "args": {k_: v_ for k_, v_ in ar.items() if k_ not in ("as_type", "scale")},
                                       "parents": [mesh_rec(p, scale=ar.get("scale", 1)) for p in parents],
                                       "child": mesh_rec(child, as_type=ar.get("as_type"), scale=ar.get("scale", 1))})
            except Inexact:
                cache[key] = None          # every operation used here maps the lattice to itself
                out.write({"id": key, "op": "offlattice", "nt": True, "args": {}, "parents": [], "child": {}})
            except Exception as ex:  # noqa: BLE001  an operation applicable to the cell type raised: verdict NoException, go on
                cache[key] = None
                if out.want(key):
                    import traceback
                    tb = traceback.extract_tb(ex.__traceback__)
                    where = next((f"{t.filename.split('/src/')[-1]}:{t.lineno}" for t in reversed(tb) if "/felupe/" in t.filename), "driver")
                    out.write({"id": key, "kind": "exception", "op": "exception", "nt": True, "error": type(ex).__name__ + ": " + str(ex)[:200], "where": where})
    out.close()


if __name__ == "__main__":
    main()
