"""Driver helpers: sharded ndjson output and quantisation.  Drivers contain NO pass/fail logic."""
import argparse
import json
import os
import sys
import warnings

import numpy as np


def args():
    ap = argparse.ArgumentParser()
    ap.add_argument("--out", required=True)
    ap.add_argument("--tier", default="quick")
    ap.add_argument("--seed", type=int, default=0)
    ap.add_argument("--shards", type=int, default=8)
    ap.add_argument("--only", default=None)
    ap.add_argument("--opt", default="")
    a = ap.parse_args()
    a.only_ids = None
    if a.only:
        with open(a.only) as f:
            a.only_ids = set(json.load(f))
    return a


class Out:
    """round-robin shard writer (balanced by bytes)"""

    def __init__(self, a):
        self.a = a
        self.files = [open("%s.%02d.ndjson" % (a.out, k), "w") for k in range(a.shards)]
        self.bytes = [0] * a.shards
        self.n = 0

    def want(self, rid):
        return self.a.only_ids is None or rid in self.a.only_ids

    def write(self, rec):
        if not self.want(rec["id"]):
            return
        s = json.dumps(rec, separators=(",", ":")) + "\n"
        k = min(range(len(self.files)), key=lambda i: self.bytes[i])
        self.files[k].write(s)
        self.bytes[k] += len(s)
        self.n += 1

    def attempt(self, rid, fn):
        """run one case; an exception raised by the code under test becomes a record the law modules report (NoException)"""
        if not self.want(rid):
            return
        try:
            rec = fn()
        except Exception as ex:  # noqa: BLE001
            import traceback
            tb = traceback.extract_tb(ex.__traceback__)
            where = next((f"{t.filename.split('/src/')[-1]}:{t.lineno}" for t in reversed(tb) if "/felupe/" in t.filename), "driver")
            self.write({"id": rid, "kind": "exception", "nt": True, "error": type(ex).__name__ + ": " + str(ex)[:200], "where": where})
            return
        if rec is not None:
            self.write(rec)

    def close(self):
        for f in self.files:
            f.close()
        for k, f in enumerate(self.files):
            if self.bytes[k] == 0:
                os.remove(f.name)


def q(x, S):
    """quantise real array to integers at scale S (round half to even like np.rint)"""
    a = np.asarray(x, dtype=float)
    # non-finite values are logged as the sentinel 2e9: the law modules report them (clause FiniteValues / bound guards)
    a = np.where(np.isfinite(a), a, 2.0e9 / S)
    r = np.rint(a * S)
    # values beyond the 32-bit range are clamped: every law that reads them then fails its bound guard
    r = np.clip(r, -2000000000, 2000000000)
    return [int(v) for v in r.ravel()]


def qi(x):
    return [int(v) for v in np.asarray(x).ravel()]
