"""C19 driver: projection / extrapolation / shifting to points, stress measures, view cell data,
boundary force and moment sums on lattice-perturbed meshes.  NO judgement here (Post.tla)."""
import warnings

import numpy as np

warnings.filterwarnings("ignore")

import felupe as fem  # noqa: E402

from .common import Out, args, q, qi  # noqa: E402

S = 2 ** 20


def distort(m, rng, amp=1 / 16.0):
    P = m.points.copy()
    lo, hi = P.min(0), P.max(0)
    inner = np.all((P > lo + 1e-9) & (P < hi - 1e-9), axis=1)
    P[inner] += rng.randint(-1, 2, size=(int(inner.sum()), P.shape[1])) * amp
    return fem.Mesh(P, m.cells, m.cell_type)


def regions(rng):
    r2 = lambda: distort(fem.Rectangle(n=3), rng)  # noqa: E731
    r3 = lambda: distort(fem.Cube(n=3), rng)  # noqa: E731
    return {
        "quad": lambda: fem.RegionQuad(r2()),
        "quad8": lambda: fem.RegionQuadraticQuad(r2().add_midpoints_edges()),
        "quad9": lambda: fem.RegionBiQuadraticQuad(r2().convert(2, True, True)),
        "hex": lambda: fem.RegionHexahedron(r3()),
        "hex20": lambda: fem.RegionQuadraticHexahedron(r3().add_midpoints_edges()),
        "hex27": lambda: fem.RegionTriQuadraticHexahedron(r3().convert(2, True, True, True)),
        "tri": lambda: fem.RegionTriangle(r2().triangulate(), quadrature=fem.TriangleQuadrature(order=2)),
        "tri6": lambda: fem.RegionQuadraticTriangle(r2().triangulate().add_midpoints_edges(), quadrature=fem.TriangleQuadrature(order=5)),
        "tet": lambda: fem.RegionTetra(r3().triangulate(), quadrature=fem.TetrahedronQuadrature(order=2)),
        "tet10": lambda: fem.RegionQuadraticTetra(r3().triangulate().add_midpoints_edges(), quadrature=fem.TetrahedronQuadrature(order=5)),
    }


def main():
    a = args()
    out = Out(a)
    quick = a.tier == "quick"
    rng = np.random.RandomState(1900 + a.seed)
    R = regions(rng)
    for name, mk in R.items():
        for shape in ((), (3,), (2, 2)):
            tag = "%s-%s" % (name, "x".join(map(str, shape)) or "s")
            region = mk()
            mesh = region.mesh
            size = int(np.prod(shape)) if shape else 1
            nodal = rng.randint(-8, 9, size=(mesh.npoints, size)) / 8.0
            f = fem.Field(region, dim=size, values=nodal)
            vq = f.interpolate()
            vqs = vq.reshape(*shape, *region.dV.shape) if shape else vq[0]
            rid = "project-" + tag
            if out.want(rid):
                pr = fem.project(vqs, region)
                out.write({"id": rid, "kind": "project", "nt": True, "projected": q(pr.reshape(mesh.npoints, -1), S), "nodal": q(nodal, S), "tol": 32})
                # any positive measure handed over as dV= (e.g. deformed volumes) still reproduces a field of the region's own space
                wq = rng.choice([0.5, 1.0, 1.5, 2.0], size=region.dV.shape)
                prw = fem.project(vqs, region, dV=wq * region.dV)
                out.write({"id": rid + "-measure", "kind": "project", "nt": True, "projected": q(prw.reshape(mesh.npoints, -1), S), "nodal": q(nodal, S),
                           "tol": 32})
                pr2 = fem.project(vqs, region, average=False)
                out.write({"id": rid + "-noavg", "kind": "project-noavg", "nt": True, "ncomp": size, "cells": [qi(c) for c in mesh.cells],
                           "extrapolated": q(pr2.reshape(-1, size), S), "nodal": q(nodal, S), "tol": 32})
                if name in ("quad", "hex"):
                    pr3 = fem.project(vqs, region, mean=True)
                    nq, nc = region.dV.shape
                    out.write({"id": rid + "-mean", "kind": "topoints-mean", "nt": True, "np": int(mesh.npoints), "ncomp": size, "cells": [qi(c) for c in mesh.cells],
                               "vals": [[q(vq[:, a_, c], S) for a_ in range(nq)] for c in range(nc)], "tp": q(pr3.reshape(mesh.npoints, -1), S)})
            rid = "integral-" + tag
            if out.want(rid):
                rnd = rng.randint(-8, 9, size=(size,) + region.dV.shape) / 8.0
                pr = fem.project(rnd.reshape(*shape, *region.dV.shape) if shape else rnd[0], region)
                pq = fem.Field(region, dim=size, values=pr.reshape(mesh.npoints, -1)).interpolate()
                out.write({"id": rid, "kind": "integral", "nt": True, "vq": [q(rnd[c].ravel(), S) for c in range(size)],
                           "pq": [q(pq[c].ravel(), S) for c in range(size)], "dV": q(region.dV.ravel(), S), "tol": 64})
            if name in ("quad", "quad9", "hex", "hex27"):
                rid = "extrapolate-" + tag
                if out.want(rid):
                    # multilinear nodal field: a + b.x + c xy ... sampled at the points of a PLAIN (undistorted) region
                    base = {"quad": lambda: fem.RegionQuad(fem.Rectangle(n=3)), "quad9": lambda: fem.RegionBiQuadraticQuad(fem.Rectangle(n=3).convert(2, True, True)),
                            "hex": lambda: fem.RegionHexahedron(fem.Cube(n=3)), "hex27": lambda: fem.RegionTriQuadraticHexahedron(fem.Cube(n=3).convert(2, True, True, True))}[name]()
                    X = base.mesh.points
                    coef = rng.randint(-4, 5, size=(size, 2 ** X.shape[1])) / 4.0
                    terms = [np.prod(X[:, [k for k in range(X.shape[1]) if (m >> k) & 1]], axis=1) for m in range(2 ** X.shape[1])]
                    nod = np.stack([sum(coef[c, m] * terms[m] for m in range(len(terms))) for c in range(size)], axis=1)
                    fb = fem.Field(base, dim=size, values=nod)
                    vb = fb.interpolate()
                    ex = fem.tools.extrapolate(vb.reshape(*shape, *base.dV.shape) if shape else vb[0], base)
                    out.write({"id": rid, "kind": "extrapolate", "nt": True, "extrapolated": q(ex.reshape(base.mesh.npoints, -1), S),
                               "nodal": q(nod, S), "tol": 32})
                    # flag variants: not averaged (one row per cell point); cell means (a multilinear field's weighted cell mean)
                    vv = vb.reshape(*shape, *base.dV.shape) if shape else vb[0]
                    ex2 = fem.tools.extrapolate(vv, base, average=False)
                    out.write({"id": rid + "-noavg", "kind": "extrapolate-noavg", "nt": True, "ncomp": size, "cells": [qi(c) for c in base.mesh.cells],
                               "extrapolated": q(ex2.reshape(-1, size), S), "nodal": q(nod, S), "tol": 32})
                    if name in ("quad", "hex"):
                        ex3 = fem.tools.extrapolate(vv, base, mean=True)
                        nq, nc = base.dV.shape
                        out.write({"id": rid + "-mean", "kind": "topoints-mean", "nt": True, "np": int(base.mesh.npoints), "ncomp": size,
                                   "cells": [qi(c) for c in base.mesh.cells],
                                   "vals": [[q(vb[:, a_, c], S) for a_ in range(nq)] for c in range(nc)], "tp": q(ex3.reshape(base.mesh.npoints, -1), S)})
        # shifting to points with averaging (values given per cell point)
        if name in ("quad", "hex", "tri", "tet"):
            rid = "topoints-" + name
            if out.want(rid):
                region = mk()
                mesh = region.mesh
                nq, nc = region.dV.shape
                if nq == mesh.cells.shape[1]:
                    vals = rng.randint(-8, 9, size=(3, nq, nc)) / 8.0
                    tp = fem.topoints(vals, region)
                    out.write({"id": rid, "kind": "topoints", "nt": True, "np": int(mesh.npoints), "ncomp": 3, "cells": [qi(c) for c in mesh.cells],
                               "vals": [[q(vals[:, a_, c], S) for a_ in range(nq)] for c in range(nc)], "tp": q(tp, S)})
                    logv = lambda v: [[q(v[:, a_, c], S) for a_ in range(v.shape[1])] for c in range(v.shape[2])]  # noqa: E731
                    cells = [qi(c) for c in mesh.cells]
                    out.write({"id": rid + "-noavg", "kind": "topoints-noavg", "nt": True, "np": int(mesh.npoints), "ncomp": 3, "cells": cells,
                               "vals": logv(vals), "tp": q(fem.topoints(vals, region, average=False), S)})
                    if name in ("quad", "hex"):          # equal quadrature weights
                        out.write({"id": rid + "-mean", "kind": "topoints-mean", "nt": True, "np": int(mesh.npoints), "ncomp": 3, "cells": cells,
                                   "vals": logv(vals), "tp": q(fem.topoints(vals, region, mean=True), S)})
                    # one quadrature point per cell (broadcast) and more quadrature points than cell points (trimmed)
                    v1 = rng.randint(-8, 9, size=(3, 1, nc)) / 8.0
                    out.write({"id": rid + "-single", "kind": "topoints-bt", "nt": True, "np": int(mesh.npoints), "ncomp": 3, "cells": cells,
                               "vals": logv(v1), "tp": q(fem.topoints(v1, region), S)})
                    vt = rng.randint(-8, 9, size=(3, nq + 3, nc)) / 8.0
                    out.write({"id": rid + "-trim", "kind": "topoints-bt", "nt": True, "np": int(mesh.npoints), "ncomp": 3, "cells": cells,
                               "vals": logv(vt), "tp": q(fem.topoints(vt, region), S)})
    # cell means on the serendipity families: MORE quadrature points (3 per axis, unequal weights) than points per cell; every
    # quadrature point enters the weighted mean (values and results at scale 2^12: 32-bit sums)
    S12 = 2 ** 12
    for name, mkr, den in (("quad8", lambda: fem.RegionQuadraticQuad(fem.Rectangle(n=3).add_midpoints_edges()), 81),
                           ("hex20", lambda: fem.RegionQuadraticHexahedron(fem.Cube(n=2).add_midpoints_edges()), 729)):
        for avg in (True, False):
            rid = "topoints-mean-%s-avg%d" % (name, avg)
            if not out.want(rid):
                continue
            region = mkr()
            mesh = region.mesh
            nq, nc = region.dV.shape
            vals = rng.randint(-8, 9, size=(2, nq, nc)) / 8.0
            W = [int(v) for v in np.rint(region.quadrature.weights * den)]
            tp = fem.topoints(vals, region, mean=True, average=avg)
            if avg:
                out.write({"id": rid, "kind": "topoints-mean", "nt": True, "np": int(mesh.npoints), "ncomp": 2, "cells": [qi(c) for c in mesh.cells], "W": W,
                           "vals": [[q(vals[:, a_, c], S12) for a_ in range(nq)] for c in range(nc)], "tp": q(tp, S12)})
            else:
                # not averaged: one row per (cell, local point), each the weighted cell mean: one-cell "meshes" of the same law
                ppc = mesh.cells.shape[1]
                tpc = np.asarray(tp, float).reshape(nc, ppc, 2)
                for c in range(min(nc, 3)):
                    out.write({"id": "%s-c%d" % (rid, c), "kind": "topoints-mean", "nt": True, "np": ppc, "ncomp": 2, "cells": [list(range(ppc))], "W": W,
                               "vals": [[q(vals[:, a_, c], S12) for a_ in range(nq)]], "tp": q(tpc[c], S12)})
    # stress measures, view cell data, boundary force and moment
    XS = 64
    for kind in ("hex", "quad", "hex-ni", "quad-ni"):
        for rep in range(1 if quick else 4):
            if kind.startswith("hex"):
                mesh = distort(fem.Cube(n=3), rng)
                f = fem.FieldContainer([fem.Field(fem.RegionHexahedron(mesh), dim=3)])
            else:
                mesh = distort(fem.Rectangle(n=3), rng)
                f = fem.FieldContainer([fem.FieldPlaneStrain(fem.RegionQuad(mesh), dim=2)])
            dim = f[0].dim
            f[0].values[:] = rng.randint(-1, 2, size=f[0].values.shape) / 32.0
            # a superposed simple shear + rotation-like part: the deformation gradient is far from symmetric
            f[0].values[:, 0] += 0.25 * mesh.points[:, 1]
            F = f.extract()[0]
            if kind.endswith("-ni"):
                solid = fem.SolidBodyNearlyIncompressible(fem.NeoHooke(mu=1.25), f, bulk=20.0)
                r = solid.assemble.vector().toarray()
                P = np.asarray(solid.evaluate.stress(f), float)           # the first Piola-Kirchhoff stress the body reports
            else:
                um = fem.NeoHooke(mu=1.25, bulk=2.0)
                solid = fem.SolidBody(um, f)
                r = solid.assemble.vector().toarray()
                P = np.asarray(um.gradient([F, None])[0], float)
            J = np.linalg.det(np.moveaxis(F.reshape(3, 3, -1), -1, 0))
            pm = lambda A: q(np.moveaxis(np.asarray(A, float).reshape(3, 3, -1), -1, 0), S)  # noqa: E731
            rid = "stress-%s-%d" % (kind, rep)
            if out.want(rid):
                out.write({"id": rid, "kind": "stress", "nt": True, "P": pm(P), "F": pm(F), "J": q(J, S),
                           "kirchhoff": pm(solid.evaluate.kirchhoff_stress()), "cauchy": pm(solid.evaluate.cauchy_stress())})
            for st in ("Cauchy", "Kirchhoff", None):
                rid = "celldata-%s-%s-%d" % (kind, st, rep)
                if out.want(rid):
                    view = solid.view(stress_type=st)
                    cd = view.mesh.cell_data
                    ev = {"Cauchy": solid.evaluate.cauchy_stress, "Kirchhoff": solid.evaluate.kirchhoff_stress, None: solid.evaluate.stress}[st]
                    sig = np.asarray(ev(f), float)          # (3, 3, q, c)
                    vo = np.array([sig[0, 0], sig[1, 1], sig[2, 2], sig[0, 1], sig[1, 2], sig[0, 2]])     # (6, q, c)
                    name = ("%s Stress" % st) if st else "Stress"
                    got = np.asarray(cd[name])
                    if got.shape[1] == 9:               # non-symmetric stress (first Piola-Kirchhoff): full tensor, row-major
                        vo = sig.reshape(9, sig.shape[2], sig.shape[3])
                    out.write({"id": rid, "kind": "celldata", "nt": True, "name": name, "cd": [q(got[c], S) for c in range(got.shape[0])],
                               "qv": [[q(vo[:, qq, c], S) for qq in range(vo.shape[1])] for c in range(vo.shape[2])]})
                    # derived per-cell data: means of the quadrature-point principal values / of the equivalent (von Mises) value
                    if got.shape[1] != 9:
                        ssym = (sig + np.einsum("ij...->ji...", sig)) / 2 if st is None else sig
                        pv = np.asarray(fem.math.eigvalsh(sig), float)                   # (3, q, c)
                        gp = np.asarray(cd["Principal Values of " + name])
                        out.write({"id": rid + "-principal", "kind": "celldata", "nt": True, "name": "Principal Values of " + name,
                                   "cd": [q(gp[c], S) for c in range(gp.shape[0])],
                                   "qv": [[q(pv[:, qq, c], S) for qq in range(pv.shape[1])] for c in range(pv.shape[2])]})
                        vm = np.asarray(fem.math.equivalent_von_mises(sig), float)       # (q, c)
                        ge = np.asarray(cd["Equivalent of " + name]).reshape(-1, 1)
                        out.write({"id": rid + "-equivalent", "kind": "celldata", "nt": True, "name": "Equivalent of " + name,
                                   "cd": [q(ge[c], S) for c in range(ge.shape[0])],
                                   "qv": [[q([vm[qq, c]], S) for qq in range(vm.shape[0])] for c in range(vm.shape[1])]})
            # tools.save(gradient=...): the "Cauchy Stress" point data of the file = Cauchy stress shifted to the points (mean over cells)
            rid = "topoints-save-cauchy-%s-%d" % (kind, rep)
            if kind == "hex" and out.want(rid):
                import meshio
                import os
                fn = "save_cauchy_%d.xdmf" % rep
                fem.tools.save(f.region, f, forces=r, gradient=[P], filename=fn)
                got = np.asarray(meshio.read(fn).point_data["Cauchy Stress"], float).reshape(mesh.npoints, 9)
                sig = np.asarray(solid.evaluate.cauchy_stress(f), float).reshape(9, *f.region.dV.shape)       # (9, q, c)
                out.write({"id": rid, "kind": "topoints", "nt": True, "np": int(mesh.npoints), "ncomp": 9, "cells": [qi(c) for c in mesh.cells],
                           "vals": [[q(sig[:, a_, c], S) for a_ in range(sig.shape[1])] for c in range(sig.shape[2])], "tp": q(got, S)})
                for f_ in os.listdir("."):
                    if f_.startswith("save_cauchy_"):
                        os.remove(f_)
            if kind.endswith("-ni"):
                continue
            rid = "forcemoment-%s-%d" % (kind, rep)
            if out.want(rid):
                b = fem.Boundary(f[0], fx=1)
                centre = rng.randint(-2, 3, size=3) / 4.0
                force = fem.tools.force(f, r, b)
                # tools.moment on 2-d fields raises with the installed numpy (2-d cross products were removed): not a case
                mom = np.atleast_1d(fem.tools.moment(f, r, b, centerpoint=centre)) if dim == 3 else np.zeros(1)
                x = mesh.points + f[0].values
                out.write({"id": rid, "kind": "forcemoment" if dim == 3 else "force", "nt": True, "dim": dim, "XS": XS, "f": q(r.ravel()[: f[0].values.size], S),
                           "x": qi(np.rint(x * XS)), "bpoints": qi(b.points), "centre": qi(np.rint(centre[:3] * XS)),
                           "force": q(force, S), "moment": q(mom, S)})
    out.close()


if __name__ == "__main__":
    main()
