"""C09 driver: displacement patch tests with lattice affine maps on lattice-distorted meshes for every
element family, uniaxial / biaxial characteristic-curve jobs, material-level view curves, ramp
subdivisions.  NO judgement here (Patch.tla)."""
import warnings

import numpy as np

warnings.filterwarnings("ignore")

import felupe as fem  # noqa: E402
import felupe.constitution.tensortrax.models.hyperelastic as th  # noqa: E402

from .common import Out, args, q, qi  # noqa: E402

S = 2 ** 20


def distort(m, rng, amp=1 / 16.0):
    P = m.points.copy()
    lo, hi = P.min(0), P.max(0)
    inner = np.all((P > lo + 1e-9) & (P < hi - 1e-9), axis=1)
    P[inner] += rng.randint(-1, 2, size=(int(inner.sum()), P.shape[1])) * amp
    return fem.Mesh(P, m.cells, m.cell_type)


FAMILIES = {
    "hex8": (3, lambda m: m, fem.RegionHexahedron),
    "hex20": (3, lambda m: m.add_midpoints_edges(), fem.RegionQuadraticHexahedron),
    "hex27": (3, lambda m: m.convert(2, True, True, True), fem.RegionTriQuadraticHexahedron),
    "tet4": (3, lambda m: m.triangulate(), fem.RegionTetra),
    "tet10": (3, lambda m: m.triangulate().add_midpoints_edges(), fem.RegionQuadraticTetra),
    "quad4": (2, lambda m: m, fem.RegionQuad),
    "quad8": (2, lambda m: m.add_midpoints_edges(), fem.RegionQuadraticQuad),
    "quad9": (2, lambda m: m.convert(2, True, True), fem.RegionBiQuadraticQuad),
    "tri3": (2, lambda m: m.triangulate(), fem.RegionTriangle),
    "tri6": (2, lambda m: m.triangulate().add_midpoints_edges(), fem.RegionQuadraticTriangle),
}
MATERIALS = {
    "neohooke": lambda: fem.NeoHooke(mu=1.25, bulk=3.0),
    "mooneyrivlin-ad": lambda: fem.Hyperelastic(th.mooney_rivlin, C10=0.25, C01=0.375) & fem.Volumetric(bulk=3.0),
    "svk-ad": lambda: fem.Hyperelastic(th.saint_venant_kirchhoff, mu=1.25, lmbda=2.0),
}


# ---- the ANALYTIC stresses: closed-form strain energies in principal stretches, written down here from the models' documentation
# (independent of felupe), differentiated by a central difference of relative step 1e-6 (error ~1e-10)
def energy(mat, l1, l2, l3):
    J = l1 * l2 * l3
    I1 = l1 ** 2 + l2 ** 2 + l3 ** 2
    I2 = (l1 * l2) ** 2 + (l2 * l3) ** 2 + (l3 * l1) ** 2
    if mat in ("neohooke", "neohooke-soft"):
        mu, bulk = 1.25, (3.0 if mat == "neohooke" else 2.0)
        return mu / 2 * (J ** (-2 / 3) * I1 - 3) + bulk / 2 * (J - 1) ** 2
    if mat == "mooneyrivlin-ad":
        return 0.25 * (J ** (-2 / 3) * I1 - 3) + 0.375 * (J ** (-4 / 3) * I2 - 3) + 3.0 / 2 * (J - 1) ** 2
    if mat == "svk-ad":
        E = [(l ** 2 - 1) / 2 for l in (l1, l2, l3)]
        return 1.25 * sum(e ** 2 for e in E) + 2.0 / 2 * sum(E) ** 2
    raise ValueError(mat)


def analytic_P(mat, lam):
    """principal first Piola-Kirchhoff stresses dW / d lambda_i at the principal stretches lam"""
    lam = np.asarray(lam, float)
    out = np.zeros(3)
    for i in range(3):
        h = 1e-6 * lam[i]
        lp, lm = lam.copy(), lam.copy()
        lp[i] += h
        lm[i] -= h
        out[i] = (energy(mat, *lp) - energy(mat, *lm)) / (2 * h)
    return out


def patch(out, rid, fam, mat, rng, n):
    dim, conv, Reg = FAMILIES[fam]
    base = fem.Cube(n=n) if dim == 3 else fem.Rectangle(n=n)
    # interior corner points perturbed on the 1/16 lattice, mid-points stay centroids; the property presupposes a valid mesh
    # (positive volumes): perturbations that (nearly) collapse a simplex are re-drawn
    for _ in range(20):
        mesh = conv(distort(base, rng))
        region = Reg(mesh)
        if region.dV.min() > 0.2 * region.dV.mean():
            break
    cls = fem.Field if dim == 3 else fem.FieldPlaneStrain
    f = fem.FieldContainer([cls(region, dim=dim)])
    H16 = rng.randint(-2, 3, size=(dim, dim))
    H = H16 / 16.0
    X = mesh.points
    lo, hi = X.min(0), X.max(0)
    onb = np.any(np.isclose(X, lo) | np.isclose(X, hi), axis=1)
    ub = X @ H.T
    b = {"all": fem.Boundary(f[0], mask=np.tile(onb.reshape(-1, 1), dim), value=ub[onb].ravel())}
    dof0, dof1 = fem.dof.partition(f, b)
    solid = fem.SolidBody(MATERIALS[mat](), f)
    for frac in (0.25, 0.5, 0.75, 1.0):          # the prescribed map is applied in four increments (continuation)
        b["all"].update(frac * ub[onb].ravel())
        ext0 = fem.dof.apply(f, b, dof0)
        res = fem.newtonrhapson(items=[solid], dof0=dof0, dof1=dof1, ext0=ext0, verbose=0, tol=1e-10, maxiter=12)
    F = res.x.extract()[0][:dim, :dim]
    X16 = np.rint(X * 32)             # mid-points of perturbed edges lie on the 1/32 lattice; law uses 16ths: log 2 * X16
    out.write({"id": rid, "kind": "patch", "nt": True, "dim": dim, "H16": qi(H16), "X16": qi(np.rint(X * 16 * 16)), "xden": 256,
               "u": q(res.x[0].values, S), "F": q(np.moveaxis(F.reshape(dim, dim, -1), -1, 0), S), "tol": 64, "iterations": int(res.iterations),
               "maxiter": 12})


def view_records(out, quick):
    """material-level curves of the compressible view vs a direct material call with independently solved lateral stretches"""
    from scipy.optimize import brentq
    for mat in (["neohooke-soft", "mooneyrivlin-ad"] if quick else ["neohooke-soft", "neohooke", "mooneyrivlin-ad"]):
        umat = fem.NeoHooke(mu=1.25, bulk=2.0) if mat == "neohooke-soft" else MATERIALS[mat]()

        def P(l1, l2, l3, mat=mat):
            return np.diag(analytic_P(mat, [l1, l2, l3]))

        def ref(mode, l):
            if mode == "ux":        # lateral stretches equal, lateral stress zero
                x = brentq(lambda x: P(l, x, x)[1, 1], 1e-2, 1e2, xtol=1e-14, rtol=1e-14)
                return P(l, x, x)[0, 0]
            if mode == "ps":        # second stretch held at one, third free
                x = brentq(lambda x: P(l, 1.0, x)[2, 2], 1e-2, 1e2, xtol=1e-14, rtol=1e-14)
                return P(l, 1.0, x)[0, 0]
            x = brentq(lambda x: P(l, l, x)[2, 2], 1e-2, 1e2, xtol=1e-14, rtol=1e-14)
            return P(l, l, x)[0, 0]

        # (compression down to 0.5 only for the soft Neo-Hooke material: the view's lateral-stretch root solve does not converge for
        #  every material at such states and then reports NaN, which is not a statement about the model)
        lo = 0.5 if mat == "neohooke-soft" else 0.75
        for rng_name, st in (("tension", fem.math.linsteps([1.0, 1.75], num=6)), ("mixed", np.linspace(lo, 2.0, 10))):
            for mode in ("ux", "ps", "bx"):
                rid = "view-%s-%s-%s" % (mat, mode, rng_name)
                if not out.want(rid):
                    continue
                kw = {"ux": None, "ps": None, "bx": None}
                kw[mode] = st
                import warnings as w
                with w.catch_warnings():
                    w.simplefilter("ignore")
                    data = umat.view(incompressible=False, **kw).evaluate()
                out.write({"id": rid, "kind": "view", "nt": True, "view": q(np.asarray(data[0][1], float), S),
                           "ref": q([ref(mode, l) for l in st], S), "ptol": 64})


def view_all_cases(out):
    """all three load cases evaluated in ONE view of a material WITH state variables (pseudo-elastic softening on a monotone path =
    primary loading = the base material): every load case starts from the virgin state"""
    from scipy.optimize import brentq
    rid = "view-ogdenroxburgh-all-cases"
    if not out.want(rid):
        return
    umat = fem.OgdenRoxburgh(fem.NeoHooke(mu=1.25, bulk=2.0), r=3.0, m=0.75, beta=0.125)
    st = fem.math.linsteps([1.0, 1.75], num=6)
    import warnings as w
    with w.catch_warnings():
        w.simplefilter("ignore")
        data = umat.view(incompressible=False, ux=st, ps=st, bx=st).evaluate()
    P = lambda l1, l2, l3: analytic_P("neohooke-soft", [l1, l2, l3])  # noqa: E731
    root = lambda g: brentq(g, 1e-2, 1e2, xtol=1e-14, rtol=1e-14)  # noqa: E731
    refs = []
    for l in st:
        x = root(lambda x: P(l, x, x)[1])
        refs.append(P(l, x, x)[0])
    for l in st:
        x = root(lambda x: P(l, 1.0, x)[2])
        refs.append(P(l, 1.0, x)[0])
    for l in st:
        x = root(lambda x: P(l, l, x)[2])
        refs.append(P(l, l, x)[0])
    got = np.concatenate([np.asarray(d[1], float) for d in data[:3]])
    out.write({"id": rid, "kind": "view", "nt": True, "view": q(got, S), "ref": q(refs, S), "ptol": 64})


def curve(out, rid, kind, fam, mat, rng, nsub, axes=(0, 1), axis=0):
    dim, conv, Reg = FAMILIES[fam]
    a_, b_ = ((0, 0, 0), (2, 1, 1)) if dim == 3 else ((0, 0), (2, 1))
    if axis != 0:            # pulled along another axis: a bar whose lower end along that axis is NOT at the x-minimum of the mesh
        a_, b_ = [0.0] * dim, [1.0] * dim
        a_[axis], b_[axis] = -1.0, 1.0
    base = fem.Cube(a=a_, b=b_, n=3) if dim == 3 else fem.Rectangle(a=a_, b=b_, n=3)
    mesh = conv(distort(base, rng))
    region = Reg(mesh)
    cls = fem.Field if dim == 3 else fem.FieldPlaneStrain
    f = fem.FieldContainer([cls(region, dim=dim)])
    umat = MATERIALS[mat]()
    solid = fem.SolidBody(umat, f)
    stretch = 0.5
    move = fem.math.linsteps([0, stretch], num=nsub)[1:]
    if kind == "uniaxial":
        bounds, lc = fem.dof.uniaxial(f, clamped=False, axis=axis, sym=tuple(k != axis for k in range(3))) if axis != 0 else \
            fem.dof.uniaxial(f, clamped=False)
        ramp = {bounds["move"]: move}
        tracked = bounds["move"]
        free = [k + 1 for k in range(dim) if k != axis]
    else:
        bounds, lc = fem.dof.biaxial(f, clampes=(False, False), moves=(0, 0), axes=axes)
        ramp = {bounds["move-right-%d" % axes[0]]: move, bounds["move-right-%d" % axes[1]]: move / 2}
        tracked = bounds["move-right-%d" % axes[0]]
        free = [k + 1 for k in range(dim) if k not in axes]
    Fq, P, ys, xs = [], [], [], []

    def cb(j, i, res):
        F = res.x.extract()[0]
        Fq.append(q(np.moveaxis(F.reshape(3, 3, -1), -1, 0), S))
        Fm = F.mean(axis=(2, 3))
        P.append(q(np.diag(analytic_P(mat, np.diag(Fm))).ravel(), S))          # homogeneous, axis-aligned stretch state

    job = fem.CharacteristicCurve(steps=[fem.Step(items=[solid], ramp=ramp, boundaries=bounds)], boundary=tracked, callback=cb)
    job.evaluate(verbose=0, tol=1e-10)
    x = np.array(job.x)[:, 0]
    y = np.array(job.y)[:, 0]
    view = []
    if kind == "uniaxial" and dim == 3 and axis == 0:
        try:
            v = umat.view(ux=1 + x / 2.0, ps=None, bx=None, incompressible=False)
            data = v.evaluate()
            view = q(np.asarray(data[0][1], float), S)
        except Exception:
            view = []
    lengths = ([2.0, 1.0, 1.0][:dim] if axis == 0 else [2.0 if k == axis else 1.0 for k in range(dim)]) + [1.0] * (3 - dim)
    ax0 = axes[0] if kind == "biaxial" else axis
    area = float(np.prod([lengths[k] for k in range(3) if k != ax0]))
    x = np.array(job.x)[:, ax0]
    y = np.array(job.y)[:, ax0]
    out.write({"id": rid, "kind": "curve", "nt": True, "axis": ax0 + 1, "Fq": Fq, "P": P, "y": q(y, S), "x": q(x, S), "invL16": int(16 / lengths[ax0]), "free": free,
               "A16": int(round(area * 16)), "tol": 96, "ptol": 96, "view": view})


def main():
    a = args()
    out = Out(a)
    quick = a.tier == "quick"
    rng = np.random.RandomState(900 + a.seed)
    mats = ["neohooke"] if quick else list(MATERIALS)
    for fam in FAMILIES:
        for mat in (mats if fam in ("hex8", "quad4") or not quick else ["neohooke"]):
            for rep in range(1 if quick else 3):
                rid = "patch-%s-%s-%d" % (fam, mat, rep)
                if out.want(rid):
                    patch(out, rid, fam, mat, np.random.RandomState(rng.randint(0, 2 ** 31 - 1)), 3 if FAMILIES[fam][0] == 3 else 5)
    for kind in ("uniaxial", "biaxial"):
        for fam in (("hex8", "quad4") if quick else ("hex8", "hex20", "hex27", "quad4", "quad8", "quad9")):
            for mat in (["neohooke", "mooneyrivlin-ad"] if fam == "hex8" else ["neohooke"]):
                rid = "curve-%s-%s-%s" % (kind, fam, mat)
                if out.want(rid):
                    curve(out, rid, kind, fam, mat, np.random.RandomState(rng.randint(0, 2 ** 31 - 1)), 3)
    for axes in ((0, 2), (1, 2), (2, 0)):
        rid = "curve-biaxial-hex8-neohooke-axes%d%d" % axes
        if out.want(rid):
            curve(out, rid, "biaxial", "hex8", "neohooke", np.random.RandomState(rng.randint(0, 2 ** 31 - 1)), 3, axes=axes)
    for axis in (1, 2):
        rid = "curve-uniaxial-hex8-neohooke-axis%d" % axis
        if out.want(rid):
            curve(out, rid, "uniaxial", "hex8", "neohooke", np.random.RandomState(rng.randint(0, 2 ** 31 - 1)), 3, axis=axis)
    rid = "curve-uniaxial-quad4-neohooke-axis1"
    if out.want(rid):
        curve(out, rid, "uniaxial", "quad4", "neohooke", np.random.RandomState(rng.randint(0, 2 ** 31 - 1)), 3, axis=1)
    view_records(out, quick)
    view_all_cases(out)
    # ramp subdivisions {1, 2, 3, 5}: same final state
    rid = "ramp-hex8-neohooke"
    if out.want(rid):
        finals = []
        for nsub in (1, 2, 3, 5):
            mesh = distort(fem.Cube(n=3), np.random.RandomState(5))
            f = fem.FieldContainer([fem.Field(fem.RegionHexahedron(mesh), dim=3)])
            bounds, lc = fem.dof.uniaxial(f, clamped=True)
            solid = fem.SolidBody(fem.NeoHooke(mu=1.25, bulk=3.0), f)
            move = fem.math.linsteps([0, 0.4], num=nsub)[1:]
            fem.Job(steps=[fem.Step(items=[solid], ramp={bounds["move"]: move}, boundaries=bounds)]).evaluate(verbose=0, tol=1e-10)
            finals.append(q(f[0].values, S))
        out.write({"id": rid, "kind": "ramp", "nt": True, "finals": finals, "tol": 16})
    out.close()


if __name__ == "__main__":
    main()
