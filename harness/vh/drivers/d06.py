"""C06 driver: real regions / fields on lattice meshes; logs differential volumes, quadrature-point
coordinates, interpolated values / gradients / hessians of fields whose nodal values sample
spec-issued integer-coefficient polynomials.  NO judgement here (Region.tla)."""
import itertools
import warnings

import numpy as np

import felupe as fem

from .common import Out, args, q, qi

S = 2 ** 20
SC = 8


def lattice_mesh(kind, n, how, rng):
    """straight-sided mesh with coordinates on the 1/8 lattice, converted to the template's cell type"""
    dim = 2 if kind in ("quad", "quad8", "quad9", "triangle", "triangle6", "trimini") else (1 if kind == "line" else 3)
    if dim == 1:
        return fem.mesh.Line(a=0, b=2, n=n)
    m = fem.Rectangle(b=(2, 2), n=n) if dim == 2 else fem.Cube(b=(2, 2, 2), n=n)
    pts = m.points.copy()
    if how == "affine":
        A = np.eye(dim) + np.triu(rng.randint(-2, 3, size=(dim, dim)), 1) / 4.0 + np.diag(rng.randint(0, 3, size=dim)) / 4.0
        pts = pts @ A.T + rng.randint(-4, 5, size=dim) / 4.0
    elif how == "perturbed":
        inner = np.all((pts > 1e-9) & (pts < 2 - 1e-9), axis=1)
        pts[inner] += rng.randint(-1, 2, size=(int(inner.sum()), dim)) / 8.0
    m = fem.Mesh(pts, m.cells, m.cell_type)
    if kind in ("triangle", "triangle6", "trimini", "tetra", "tetra10", "tetmini"):
        m = m.triangulate()
    if kind in ("quad8", "hexahedron20", "triangle6", "tetra10"):
        m = m.add_midpoints_edges()
    if kind == "trimini":
        m = m.add_midpoints_faces()
    if kind == "tetmini":
        m = m.add_midpoints_volumes()
    if kind == "quad9":
        m = m.convert(2, True, True)
    if kind == "hexahedron27":
        m = m.convert(2, True, True, True)
    return m


def curve(m, amp=0.06):
    x = m.points
    dim = x.shape[1]
    pts = x + amp * np.stack([x[:, (k + 1) % dim] * (2 - x[:, (k + 1) % dim]) * (1 if k % 2 == 0 else -1) for k in range(dim)], axis=1)
    return fem.Mesh(pts, m.cells, m.cell_type)


TEMPLATES = {
    # name: (mesh kind, region factory, element order, has hessian option, enriched, family)
    "RegionQuad": ("quad", lambda m, **k: fem.RegionQuad(m, **k), 1, True, False),
    "RegionQuadraticQuad": ("quad8", lambda m, **k: fem.RegionQuadraticQuad(m, **k), 2, True, False),
    "RegionBiQuadraticQuad": ("quad9", lambda m, **k: fem.RegionBiQuadraticQuad(m, **k), 2, False, False),
    "RegionHexahedron": ("hexahedron", lambda m, **k: fem.RegionHexahedron(m, **k), 1, True, False),
    "RegionQuadraticHexahedron": ("hexahedron20", lambda m, **k: fem.RegionQuadraticHexahedron(m, **k), 2, False, False),
    "RegionTriQuadraticHexahedron": ("hexahedron27", lambda m, **k: fem.RegionTriQuadraticHexahedron(m, **k), 2, False, False),
    "RegionTriangle": ("triangle", lambda m, **k: fem.RegionTriangle(m, **k), 1, True, False),
    "RegionQuadraticTriangle": ("triangle6", lambda m, **k: fem.RegionQuadraticTriangle(m, **k), 2, False, False),
    "RegionTriangleMINI": ("trimini", lambda m, **k: fem.RegionTriangleMINI(m, **k), 1, True, True),
    "RegionTetra": ("tetra", lambda m, **k: fem.RegionTetra(m, **k), 1, True, False),
    "RegionQuadraticTetra": ("tetra10", lambda m, **k: fem.RegionQuadraticTetra(m, **k), 2, False, False),
    "RegionTetraMINI": ("tetmini", lambda m, **k: fem.RegionTetraMINI(m, **k), 1, True, True),
}
BOUNDARY = {
    "RegionQuadBoundary": ("quad", fem.RegionQuadBoundary, 1),
    "RegionQuadraticQuadBoundary": ("quad8", fem.RegionQuadraticQuadBoundary, 2),
    "RegionBiQuadraticQuadBoundary": ("quad9", fem.RegionBiQuadraticQuadBoundary, 2),
    "RegionHexahedronBoundary": ("hexahedron", fem.RegionHexahedronBoundary, 1),
    "RegionQuadraticHexahedronBoundary": ("hexahedron20", fem.RegionQuadraticHexahedronBoundary, 2),
    "RegionTriQuadraticHexahedronBoundary": ("hexahedron27", fem.RegionTriQuadraticHexahedronBoundary, 2),
}


def mesh_rec(m, kind=None):
    if kind in ("trimini", "tetmini"):       # triangle / tetra corners first, then the bubble point
        return {"type": "triangle" if kind == "trimini" else "tetra", "dim": int(m.points.shape[1]),
                "pts": [qi(np.rint(p * SC)) for p in m.points], "cells": [qi(c) for c in m.cells]}
    base = {"quad8": "quad", "quad9": "quad", "hexahedron20": "hexahedron", "hexahedron27": "hexahedron", "triangle6": "triangle",
            "tetra10": "tetra"}.get(m.cell_type, m.cell_type)
    return {"type": base, "dim": int(m.points.shape[1]), "pts": [qi(np.rint(p * SC)) for p in m.points],
            "cells": [qi(c) for c in m.cells]}


def random_poly(rng, dim, deg):
    """integer-coefficient polynomial of total degree <= deg as list of monomials"""
    monos = []
    for e in itertools.product(range(deg + 1), repeat=dim):
        if sum(e) <= deg:
            c = int(rng.randint(-2, 3))
            if c != 0 or sum(e) == deg:
                monos.append({"c": c if c != 0 else 1, "e": list(e)})
    return monos


def poly_eval(monos, X):
    v = np.zeros(len(X))
    for m in monos:
        v += m["c"] * np.prod(X ** np.array(m["e"]), axis=1)
    return v


def quad_points(region, mesh):
    """coordinates of the quadrature points of every cell: isoparametric map of the region itself"""
    h = region.h
    if h.ndim == 3:
        h = h[..., 0]
    return np.einsum("aq,cak->cqk", h, mesh.points[region.mesh.cells])      # (c, q, dim)


def reproduce_record(rid, region, mesh, dim, deg, ncomp, rng, hess, field_cls=None, tol=24, nbubble=0):
    polys = [random_poly(rng, dim, deg) for _ in range(ncomp)]
    vals = np.stack([poly_eval(p, mesh.points) for p in polys], axis=1)
    if nbubble:
        # enriched (MINI) templates: the bubble unknowns are not nodal values; the nodal functions alone carry the polynomial
        vals[np.unique(mesh.cells[:, -nbubble:])] = 0.0
    field = (field_cls or fem.Field)(region, dim=ncomp, values=vals) if field_cls is None else field_cls(region, dim=ncomp, values=vals)
    xq = quad_points(region, mesh)
    u = field.interpolate()                       # (comp, q, c)
    r = {"id": rid, "kind": "reproduce", "nt": deg > 0, "dim": dim, "deg": max(deg, 1), "polys": polys,
         "xq": [q(p, S) for p in xq.reshape(-1, dim)], "val": [q(v, S) for v in np.transpose(u, (2, 1, 0)).reshape(-1, ncomp)],
         "hasg": False, "hash": False, "tolv": tol * (1 + 2 * deg * deg), "tolg": 4 * tol * (1 + 2 * deg * deg), "tolh": 16 * tol * (1 + 2 * deg * deg),
         "grad": [], "hess": []}
    if getattr(region, "dhdX", None) is not None and np.ndim(region.dhdX) == 4:
        g = field.grad()                          # (comp, j, q, c)
        r["grad"] = [q(v, S) for v in np.transpose(g, (3, 2, 0, 1)).reshape(-1, ncomp * dim)]
        r["hasg"] = True
    if hess:
        H = field.hess()                          # (comp, j, k, q, c)
        r["hess"] = [q(v, S) for v in np.transpose(H, (4, 3, 0, 1, 2)).reshape(-1, ncomp * dim * dim)]
        r["hash"] = True
    return r


def main():
    a = args()
    out = Out(a)
    quick = a.tier == "quick"
    rng = np.random.RandomState(600 + a.seed)
    nmesh = 1 if quick else 4
    npoly = 2 if quick else 5
    fam2, fam3 = {}, {}
    for tname, (kind, mk, order, has_hess, enriched) in TEMPLATES.items():
        dim = 2 if kind in ("quad", "quad8", "quad9", "triangle", "triangle6", "trimini") else 3
        for how in ("plain", "affine", "perturbed", "curved"):
            for rep in range(nmesh):
                r2 = np.random.RandomState(rng.randint(0, 2 ** 31 - 1))
                mesh = lattice_mesh(kind, 3, "plain" if how == "curved" else how, r2)
                if how == "curved":
                    mesh = curve(mesh)
                tag = "%s-%s-%d" % (tname, how, rep)
                with warnings.catch_warnings(record=True) as w:
                    warnings.simplefilter("always")
                    region = mk(mesh)
                warned = any("negative" in str(x.message).lower() or "volume" in str(x.message).lower() for x in w)
                ncells = mesh.ncells
                # volumes
                rid = "volume-" + tag
                if out.want(rid):
                    if how == "curved":
                        out.write({"id": rid, "kind": "positive", "nt": True, "dV": q(region.dV.T, S), "warned": bool(warned)})
                    else:
                        out.write({"id": rid, "kind": "volume", "nt": True, "dV": q(region.dV.T, S), "warned": bool(warned), "mesh": mesh_rec(mesh, kind),
                                   "tol": 16 + region.dV.size})
                if how in ("plain", "perturbed") and rep == 0 and order <= 2:
                    (fam2 if dim == 2 else fam3).setdefault(how, []).append(float(region.dV.sum()))
                # rigid motion: rational rotation (3-4-5 / 1-2-2 families) and a lattice translation
                rid = "rigid-" + tag
                if out.want(rid):
                    Q = np.array([[3, -4], [4, 3]]) / 5.0 if dim == 2 else np.array([[2, -1, 2], [2, 2, -1], [-1, 2, 2]]) / 3.0
                    moved = fem.Mesh(mesh.points @ Q.T + np.arange(1, dim + 1) / 2.0, mesh.cells, mesh.cell_type)
                    with warnings.catch_warnings():
                        warnings.simplefilter("ignore")
                        out.write({"id": rid, "kind": "rigid", "nt": True, "dV": q(region.dV.T, S), "dVmoved": q(mk(moved).dV.T, S),
                                   "pointwise": not enriched})
                # polynomial reproduction: degree <= order on affine cells, <= 1 on distorted / curved cells
                degs = range(order + 1) if how in ("plain", "affine") else (0, 1)
                for deg in degs:
                    for pn in range(npoly if deg > 0 else 1):
                        rid = "reproduce-%s-deg%d-%d" % (tag, deg, pn)
                        if not out.want(rid):
                            continue
                        hess = has_hess and how in ("plain", "affine") and not enriched
                        reg = mk(mesh, hess=True) if hess else region
                        out.write(reproduce_record(rid, reg, mesh, dim, deg, 1 + pn % dim, r2, hess, nbubble=1 if enriched else 0))
        # Gram matrices of shape-function gradients: default rule vs higher rule on affine cells
        if not enriched:
            rid = "gram-" + tname
            if out.want(rid):
                r2 = np.random.RandomState(7)
                mesh = lattice_mesh(kind, 2, "affine", r2)
                region = mk(mesh)
                if kind in ("quad", "quad8", "quad9", "hexahedron", "hexahedron20", "hexahedron27"):
                    hi = fem.GaussLegendre(order=order + 1, dim=dim)
                else:
                    hi = fem.TriangleQuadrature(order=5) if dim == 2 else fem.TetrahedronQuadrature(order=5)
                high = fem.Region(mesh, region.element, hi)
                G = np.einsum("aJqc,bJqc,qc->abc", region.dhdX, region.dhdX, region.dV)
                Gh = np.einsum("aJqc,bJqc,qc->abc", high.dhdX, high.dhdX, high.dV)
                out.write({"id": rid, "kind": "gram", "nt": True, "gram": q(G, S), "gramhigh": q(Gh, S), "tol": 16})
    for fam in (fam2, fam3):
        for how, vols in fam.items():
            rid = "family-%dd-%s" % (2 if fam is fam2 else 3, how)
            if out.want(rid):
                out.write({"id": rid, "kind": "family", "nt": True, "volumes": q(vols, S), "tol": 64})
    # wrongly oriented cells are reported
    for tname in ("RegionQuad", "RegionHexahedron", "RegionTriangle", "RegionTetra"):
        kind, mk, order, _, _ = TEMPLATES[tname]
        for cell in (0, 2):
            rid = "negative-%s-c%d" % (tname, cell)
            if not out.want(rid):
                continue
            mesh = lattice_mesh(kind, 3, "plain", rng)
            cells = mesh.cells.copy()
            c = cells[cell].copy()
            c[[0, 1]] = c[[1, 0]]
            cells[cell] = c
            bad = fem.Mesh(mesh.points, cells, mesh.cell_type)
            with warnings.catch_warnings(record=True) as w:
                warnings.simplefilter("always")
                mk(bad)
            msgs = " ".join(str(x.message) for x in w)
            out.write({"id": rid, "kind": "negative", "nt": True, "warned": len(w) > 0, "named": str(cell) in msgs})
    # boundary templates: value / gradient reproduction on affine cells at the boundary quadrature points
    for bname, (kind, cls, order) in BOUNDARY.items():
        dim = 2 if kind.startswith("quad") else 3
        for how in ("plain", "affine"):
            for deg in range(order + 1):
                for pn in range(npoly if deg > 0 else 1):
                    rid = "reproduce-%s-%s-deg%d-%d" % (bname, how, deg, pn)
                    if not out.want(rid):
                        continue
                    r2 = np.random.RandomState(rng.randint(0, 2 ** 31 - 1))
                    mesh = lattice_mesh(kind, 2 if dim == 3 else 3, how, r2)
                    region = cls(mesh)
                    out.write(reproduce_record(rid, region, mesh, dim, deg, 1 + pn % dim, r2, False))
    # Lagrange and constant / dual templates
    for order in (2, 3) if quick else (2, 3, 4):
        for dim in (2, 3):
            if dim == 3 and order > 3:
                continue
            for deg in (0, 1, order):
                rid = "reproduce-RegionLagrange-o%d-d%d-deg%d" % (order, dim, deg)
                if out.want(rid):
                    mesh = fem.mesh.RectangleArbitraryOrderQuad(b=(2, 1), order=order) if dim == 2 else \
                        fem.mesh.CubeArbitraryOrderHexahedron(b=(2, 1, 1), order=order)
                    region = fem.RegionLagrange(mesh, order=order, dim=dim)
                    out.write(reproduce_record(rid, region, mesh, dim, deg, 1, np.random.RandomState(order * 10 + dim), False, tol=64))
    for kind, cls, base in (("quad", fem.RegionConstantQuad, fem.RegionQuad), ("hexahedron", fem.RegionConstantHexahedron, fem.RegionHexahedron),
                            ("quad8", fem.RegionConstantQuad, fem.RegionQuadraticQuad), ("hexahedron20", fem.RegionConstantHexahedron, fem.RegionQuadraticHexahedron)):
        rid = "dual-" + base.__name__
        if out.want(rid):
            mesh = lattice_mesh(kind, 3, "perturbed", rng)
            region = base(mesh)
            fc = fem.FieldsMixed(region, n=2)
            p = fc.fields[1]
            p.values[:] = rng.randint(-3, 4, size=p.values.shape)
            v = p.interpolate()            # (1, q, c)
            out.write({"id": rid, "kind": "dual", "nt": True, "percell": [q(v[0, :, c], S) for c in range(v.shape[-1])]})
    # cell-wise constant means ONE INDEPENDENT unknown per cell -- also on a mesh whose cells all start with the same point, and
    # also after somebody has asked for a connected dual field of the same region class before (options must not leak between calls)
    for hist in ("fresh", "after-connected"):
        rid = "dual-independent-" + hist
        if out.want(rid):
            base_mesh = fem.Rectangle(n=3)
            cells = np.array([[4, 3, 0, 1], [4, 1, 2, 5], [4, 7, 6, 3], [4, 5, 8, 7]])       # same cells, each numbered from the centre point
            mesh = fem.Mesh(base_mesh.points, cells, "quad")
            region = fem.RegionQuad(mesh)
            if hist == "after-connected":
                fem.FieldDual(region, disconnect=False)
            fc = fem.FieldsMixed(region, n=3)
            vals = []
            for k in (1, 2):
                fld = fc.fields[k]
                fld.values[:] = np.arange(fld.values.shape[0]).reshape(fld.values.shape) + 1.0
                vals.append(fld.interpolate())
            out.write({"id": rid, "kind": "dualindep", "nt": True, "ncells": int(mesh.ncells),
                       "nunknowns": [int(fc.fields[1].values.shape[0]), int(fc.fields[2].values.shape[0])],
                       "percell": [q(v[0, :, c], S) for v in vals for c in range(v.shape[-1])],
                       "cellvalue": [[q(v[0, 0, c], S)[0] for c in range(v.shape[-1])] for v in vals]})
    # field kinds: plane strain padding, axisymmetric hoop entry
    for kindname, cls in (("planestrain", fem.FieldPlaneStrain), ("axisymmetric", fem.FieldAxisymmetric)):
        for how in ("plain", "perturbed"):
            rid = "%s-%s" % (kindname, how)
            if not out.want(rid):
                continue
            mesh = lattice_mesh("quad", 3, how, rng)
            mesh = fem.Mesh(mesh.points + np.array([0.0, 0.5]), mesh.cells, mesh.cell_type)     # radial coordinate > 0
            region = fem.RegionQuad(mesh)
            vals = rng.randint(-4, 5, size=(mesh.npoints, 2)) / 32.0
            f = cls(region, dim=2, values=vals)
            fc = fem.FieldContainer([f])
            F = fc.extract()[0]                                     # (3, 3, q, c)
            g = fem.Field(region, dim=2, values=vals).grad()        # (2, 2, q, c)
            u = fem.Field(region, dim=2, values=vals).interpolate()
            xq = quad_points(region, mesh)
            # second derivatives of the 2-d field kinds: in-plane block = the plain field's hessian, padded with zeros
            rh = fem.RegionQuad(mesh, hess=True)
            fh = cls(rh, dim=2, values=vals)
            if hasattr(fh, "hess"):
                H3 = np.asarray(fh.hess(), float)                                   # (3, 3, 3, q, c) for plane strain
                H2 = np.asarray(fem.Field(rh, dim=2, values=vals).hess(), float)    # (2, 2, 2, q, c)
                out.write({"id": rid + "-hess", "kind": "hesspad", "nt": True, "d3": int(H3.shape[0]),
                           "H3": [q(v, S) for v in np.moveaxis(H3.reshape(-1, *H3.shape[-2:]), 0, -1).reshape(-1, H3.shape[0] ** 3)],
                           "H2": [q(v, S) for v in np.moveaxis(H2.reshape(-1, *H2.shape[-2:]), 0, -1).reshape(-1, 8)]})
            out.write({"id": rid, "kind": kindname, "nt": True, "dim": 2,
                       "F": [q(v, S) for v in np.transpose(F, (3, 2, 0, 1)).reshape(-1, 9)],
                       "gradu": [q(v, S) for v in np.transpose(g, (3, 2, 0, 1)).reshape(-1, 4)],
                       "u": [q(v, S) for v in np.transpose(u, (2, 1, 0)).reshape(-1, 2)],
                       "xq": [q(p, S) for p in xq.reshape(-1, 2)]})
    # fast paths and copies
    for cls, mk, n in ((fem.RegionQuad, fem.Rectangle, (4, 3)), (fem.RegionHexahedron, fem.Cube, (3, 2, 4))):
        for affine in (False, True):
          rid = "uniform-" + cls.__name__ + ("-affine" if affine else "")
          if out.want(rid):
            mesh = mk(n=n)
            if affine:        # congruent parallelepiped cells (rational rotation and shear of the grid) are still a uniform grid
                d = mesh.points.shape[1]
                Q = np.array([[3, -4], [4, 3]]) / 5.0 if d == 2 else np.array([[2, -1, 2], [2, 2, -1], [-1, 2, 2]]) / 3.0
                Sh = np.eye(d)
                Sh[0, 1] = 0.25
                mesh = fem.Mesh(mesh.points @ (Q @ Sh).T, mesh.cells, mesh.cell_type)
            rg, ru = cls(mesh), cls(mesh, uniform=True)
            bc = lambda x: np.broadcast_to(x, x.shape[:-1] + (mesh.ncells,))  # noqa: E731
            out.write({"id": rid, "kind": "uniform", "nt": True, "a": q(rg.dV, S) + q(rg.dhdX, S), "b": q(bc(ru.dV), S) + q(bc(ru.dhdX), S)})
        rid = "astype-" + cls.__name__
        if out.want(rid):
            mesh = mk(n=n)
            rg = cls(mesh)
            r32 = rg.astype(np.float32)
            out.write({"id": rid, "kind": "astype", "nt": True, "a": q(rg.dV, S) + q(rg.dhdX, S), "b": q(r32.dV, S) + q(r32.dhdX, S), "tol": 8,
                       "dtype": str(r32.dV.dtype)})
            # every cached array, incl. the second derivatives, on cells whose Jacobian is not the identity (sheared + scaled);
            # as a copy and in place
            d = mesh.points.shape[1]
            A = np.eye(d) * 0.75
            A[0, 1] = 0.25
            m2 = fem.Mesh(mesh.points @ A.T, mesh.cells, mesh.cell_type)
            for how in ("copy", "inplace"):
                rh = cls(m2, hess=True)
                ref = [np.array(getattr(rh, k), float) for k in ("h", "dhdr", "dXdr", "drdX", "dV", "dhdX", "d2hdXdX")]
                r32 = rh.astype(np.float32, copy=(how == "copy"))
                got = [np.asarray(getattr(r32, k), float) for k in ("h", "dhdr", "dXdr", "drdX", "dV", "dhdX", "d2hdXdX")]
                out.write({"id": rid + "-hess-" + how, "kind": "astype", "nt": True, "a": sum((q(x, S) for x in ref), []), "b": sum((q(x, S) for x in got), []),
                           "tol": 16, "dtype": str(r32.dV.dtype)})
    out.close()


if __name__ == "__main__":
    main()
