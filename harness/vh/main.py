"""bin/check <ID> [--tier quick|thorough] [--replay file]   (exit 0 held / 1 violation / 2 machinery failure)"""
import argparse
import importlib
import os
import sys
import traceback

from .core import Ctx, MachineryError


def main():
    ap = argparse.ArgumentParser()
    ap.add_argument("pid")
    ap.add_argument("--tier", default=os.environ.get("VERIF_TIER", "quick"), choices=["quick", "thorough"])
    ap.add_argument("--replay", default=None)
    a = ap.parse_args()
    seed = int(os.environ.get("VERIF_SEED", "0") or 0)
    pid = a.pid.upper()
    ctx = Ctx(pid, a.tier, seed, a.replay)
    try:
        mod = importlib.import_module("vh.props." + pid.lower())
        mod.run(ctx)
        rc = ctx.finish()
    except MachineryError as ex:
        print("MACHINERY-FAILURE property=%s: %s" % (pid, ex))
        rc = 2
    except Exception:
        traceback.print_exc()
        print("MACHINERY-FAILURE property=%s: unexpected exception" % pid)
        rc = 2
    sys.exit(rc)


if __name__ == "__main__":
    main()
