"""C20: result and mesh files (FileIO.tla + the frame log of Solver.tla)."""
from . import c07


def run(ctx):
    c07.model(ctx, "SolverMC15.cfg")
    beh = c07.behaviours(ctx, "SolverDump.cfg" if ctx.tier == "quick" else "SolverDump15.cfg")
    r = ctx.tlc_model("FileIOTrace", "FileIORef.cfg", workers=1, env={"TRACE_FILE": "/dev/null", "VERDICT_FILE": "/dev/null"})
    shards = ctx.drive("d20", nshards=16, extra=["--opt", "behaviours=%s;maxiter=2" % beh], timeout=7200)
    laws = [s for s in shards if "-laws." in s]
    traces = [s for s in shards if "-laws." not in s]
    ctx.drift_prefixes = ("Mismatch-",)     # structural deviation from Solver.tla without a property-level reason (see SolverTrace!Reasons)
    ctx.validate("SolverTrace", traces, count=False)
    ntr = 0
    for s in traces:
        with open(s) as f:
            for line in f:
                if '"ev":"TraceBegin"' in line:
                    ntr += 1
    ctx.extra["traces"] = ntr
    ctx.records += ntr
    ctx.drift_clauses |= {"FrameKeysNoExtras"}
    ctx.validate("FileIOTrace", laws)
    ctx.require_clauses(["Frame", "PaddedPoints", "CutPoints", "SameCells", "SameCellType", "SharedPoints", "FrameCount", "FrameOrder",
                         "FrameDisplacement", "FrameCellData", "FrameCustomData", "SaveDisplacement", "SaveReaction"])
    ctx.rule = ("round trips: 13 cell types x vtk/vtu/xdmf with irregular dyadic coordinates; containers with two cell blocks, merge on/off; "
                "frames: real jobs (stop early, custom point/cell data, cyclic, plane strain) and every SolverMC behaviour with file output "
                "replayed and read back; saved results; non-trivial = record with >= 1 frame / any mesh")
    ctx.assumptions = ["files are read back with meshio (trusted reader)",
                       "logarithmic-strain cell data compared with an independent numpy eigen-decomposition at 2^-20 +- 8 ulp"]
