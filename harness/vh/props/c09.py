"""C09: homogeneous deformation problems are solved exactly (Patch.tla)."""


def run(ctx):
    r = ctx.tlc_model("PatchTrace", "PatchRef.cfg", workers=1, env={"TRACE_FILE": "/dev/null", "VERDICT_FILE": "/dev/null"})
    ctx.require_model_ok(r)
    shards = ctx.drive("d09", nshards=16, timeout=7200)
    ctx.validate("PatchTrace", shards, heap="3g")
    ctx.require_clauses(["Affine", "UniformF", "HomogeneousF", "StretchApplied", "LateralStressFree", "Reaction", "CurveAgreesWithView", "RampIndependence"])
    ctx.rule = ("displacement patch tests with lattice affine maps (entries k/16) on meshes with interior points perturbed on the 1/16 lattice for "
                "10 element families (hex 8/20/27, tet 4/10, quad 4/8/9, tri 3/6; 3D / plane strain) x materials; uniaxial and biaxial "
                "characteristic-curve jobs; view curves; ramp subdivisions 1/2/3/5")
    ctx.assumptions = ["Newton tolerance 1e-10; comparison at 2^-20 with 64-96 ulp", "simplex meshes straight-edged (tet10) as the property states"]
