"""C17: batched tensor algebra (TensorLaws.tla / TensorLawsTrace.tla)."""


def run(ctx):
    r = ctx.tlc_model("TensorLawsTrace", "TensorLawsRef.cfg", workers=1, env={"TRACE_FILE": "/dev/null", "VERDICT_FILE": "/dev/null"})
    ctx.require_model_ok(r)
    shards = ctx.drive("d17", nshards=16)
    ctx.validate("TensorLawsTrace", shards, heap="3g")
    ctx.require_clauses(["Definition", "SolveResidual", "InverseIdentity", "SameAsPlain", "InputsUnchanged", "RotationOrthogonal",
                         "RotationAngle", "EigenPairs", "SethHill", "Linsteps"])
    ctx.rule = ("one record per routine x mode x dimension 1..3 x repetition, each with a batch of integer tensors (entries -2..2) along the "
                "trailing axis, second operands with and without a size-one broadcast axis; flag variants (sym, supplied determinant, out=fresh / "
                "reused buffer, parallel) compared bit-wise with the plain call together with the inputs' bit patterns before/after")
    ctx.assumptions = ["polynomial routines are decided exactly on integer tensors; eigen-decompositions, generic rotation angles only through "
                       "reconstruction / orthogonality laws at 2^-20", "Seth-Hill strains at integer stretches for k in {2,1,-1,-2}"]
