"""C07: Newton solve = equilibrium honouring constraints (Solver.tla, SolverMC, SolverTrace, NewtonLaws)."""
import os

MUTS = ["commit_on_fail", "return_at_maxiter", "no_x0_link", "frame_skip", "continue_after_failure", "stale_jac"]


def model(ctx, mc_cfg="SolverMC.cfg"):
    """exhaustive model + seeded-fault configs (each must be rejected by TLC)"""
    from ..core import MachineryError
    r = ctx.tlc_model("SolverMC", mc_cfg, workers=16, heap="6g", timeout=1800)
    ctx.require_model_ok(r)
    rejected = []
    for m in MUTS:
        rm = ctx.tlc_model("SolverMC", "SolverMut_%s.cfg" % m, workers=4, timeout=600)
        if rm["rc"] in (0,) or "is violated" not in rm["out"]:
            raise MachineryError("seeded model fault %s was not rejected by TLC (rc=%s): invariants are vacuous" % (m, rm["rc"]))
        rejected.append(m)
    ctx.extra["model_faults_rejected"] = rejected


def behaviours(ctx, cfg="SolverDump.cfg", simulate=None):
    r = ctx.tlc("SolverMC", cfg, workers=1, timeout=900, simulate=simulate, tag="dump")
    lines = sorted({ln.strip().strip('"') for ln in r["out"].splitlines() if "BEHAVIOUR|" in ln})
    from ..core import MachineryError
    if not lines:
        raise MachineryError("no behaviours exported by TLC\n" + r["out"][-2000:])
    path = os.path.join(ctx.work, "behaviours.txt")
    with open(path, "w") as f:
        f.write("\n".join(lines) + "\n")
    ctx.behaviours_exported = len(lines)
    ctx.extra["behaviours_exported"] = len(lines)
    return path


def repo_tests(ctx, files=None):
    """run (part of) the repository's own test suite under the run-time tracer; returns the trace file"""
    import subprocess
    from ..core import PY, VERIF, MachineryError
    out = os.path.join(ctx.work, "repotests.ndjson")
    e = dict(os.environ)
    pp = [os.path.join(VERIF, "harness")]
    if os.environ.get("VERIF_REPO_SRC"):
        pp.insert(0, os.environ["VERIF_REPO_SRC"])
    e["PYTHONPATH"] = ":".join(pp)
    e["FELUPE_VERIF_TRACE"] = out
    cwd = os.path.join(ctx.work, "repotests")
    os.makedirs(cwd, exist_ok=True)
    targets = ["/repo/tests/" + f for f in files] if files else ["/repo/tests"]
    p = subprocess.run([PY, "-m", "pytest", "-q", "-p", "no:cacheprovider", "-p", "vh.pytest_tracer", "--rootdir", "/repo", "--timeout=900"] + targets,
                       cwd=cwd, env=e, capture_output=True, text=True, timeout=3600)
    ctx.extra["repo_tests_under_tracer"] = (p.stdout.strip().splitlines() or ["?"])[-1]
    if not os.path.exists(out):
        raise MachineryError("the traced repository tests produced no trace\n" + p.stdout[-2000:] + p.stderr[-2000:])
    return out


def run(ctx):
    model(ctx)
    beh = behaviours(ctx)
    shards = ctx.drive("d07", nshards=16, extra=["--opt", "behaviours=%s;maxiter=2" % beh])
    laws = [s for s in shards if "-laws." in s]
    traces = [s for s in shards if "-laws." not in s]
    # the repository's own tests, traced: every event must be explainable by the specification as well
    traces.append(repo_tests(ctx, None if ctx.tier == "thorough" else
                             ["test_job.py", "test_tools.py", "test_mechanics.py", "test_constitution_newton.py", "test_planestrain.py", "test_readme.py"]))
    ctx.drift_prefixes = ("Mismatch-",)     # structural deviation from Solver.tla without a property-level reason (see SolverTrace!Reasons)
    ctx.validate("SolverTrace", traces, count=False)
    ntr = 0
    for s in traces:
        with open(s) as f:
            for line in f:
                if '"ev":"TraceBegin"' in line:
                    ntr += 1
                    tid = line.split('"tid":"')[1].split('"')[0]
                    ctx.nontrivial.add(tid)
                    if len(ctx.samples) < 2:
                        ctx.samples.append({"trace": tid})
    ctx.extra["traces"] = ntr
    ctx.records += ntr
    ctx.validate("NewtonLawsTrace", laws)
    ctx.require_clauses(["Commit", "Check", "Return", "Raise", "Frame", "Callback", "RampUpdate",
                         "BCExact", "Equilibrium", "LinearOneStep", "ReducedSystem", "PrescribedIncrement"])
    ctx.rule = ("traces: real problems (element family x material x load case x items x tolerance/maxiter x variant job/newton/x0+file/"
                "failing/two jobs) under the run-time tracer + every behaviour of SolverMC (all outcome-oracle sequences within the "
                "bounds) replayed through the real Job/Step/newtonrhapson with scripted items; law records: one per returned "
                "NewtonResult + integer partitioned systems; distinct = distinct trace ids / record ids")
    ctx.assumptions = ["iterate and state-variable identities are 48-bit content digests (collisions ignored)",
                       "Equilibrium uses a residual re-assembled by the driver through freshly constructed items",
                       "the run-time tracer wraps felupe's module globals/defaults; code paths that bypass them are not observed"]
