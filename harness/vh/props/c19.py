"""C19: projection and post-processing (Post.tla)."""


def run(ctx):
    r = ctx.tlc_model("PostTrace", "PostRef.cfg", workers=1, env={"TRACE_FILE": "/dev/null", "VERDICT_FILE": "/dev/null"})
    ctx.require_model_ok(r)
    shards = ctx.drive("d19", nshards=16, timeout=7200)
    ctx.validate("PostTrace", shards, heap="3g")
    ctx.require_clauses(["ProjectReproduces", "ProjectPreservesIntegral", "ExtrapolateMultilinear", "ToPointsMean", "KirchhoffIsPFt",
                         "CauchyIsPFtOverJ", "CellDataIsMean", "ForceSum", "MomentSum"])
    ctx.rule = ("projection on 10 region kinds (simplex regions with the sufficient rule named by the code's own guard) x tensor orders 0-2; "
                "integral preservation with arbitrary quadrature values; extrapolation of multilinear fields on quad / quad9 / hex / hex27; "
                "point means recomputed by TLC from the mesh incidence; Kirchhoff / Cauchy stresses, view cell data, boundary force and moment")
    ctx.assumptions = ["fixed point 2^-20; lattice-perturbed 4-8 cell meshes", "extrapolation on undistorted regions whose Gauss point count equals the cell's point count"]
