"""C02: integral forms (Assembly.tla / AssemblyMC.tla / Threads.tla / AssemblyTrace.tla)."""
from ..core import MachineryError


def run(ctx):
    r = ctx.tlc_model("AssemblyMC", workers=1)
    ctx.require_model_ok(r)
    for mode in ("full", "sym"):
        r = ctx.tlc_model("Threads", "Threads_%s.cfg" % mode, workers=8)
        ctx.require_model_ok(r)
    for mode in ("sym_asym", "racy"):
        r = ctx.tlc_model("Threads", "Threads_%s.cfg" % mode, workers=4)
        if r["rc"] == 0 or "is violated" not in r["out"]:
            raise MachineryError("Threads.tla: schedule-dependent variant %s was not rejected" % mode)
    shards = ctx.drive("d02", nshards=16)
    ctx.validate("AssemblyTrace", shards, heap="3g")
    ctx.require_clauses(["BilinearSum", "LinearSum", "ParallelFlagIrrelevant", "UniformEqualsGeneral", "ExprEqualsArray", "ScheduleIndependent"])
    ctx.rule = ("array forms on regions with injected integer shape-function/gradient/volume arrays: dims 1-3 x grad_v x grad_u x quadrature "
                "order, scalar integrands, plane-strain trimming, axisymmetric linear/bilinear with hoop terms, mixed containers (same / dual "
                "regions) in block modes 1/2/3 with absent blocks; equalities: parallel flag, uniform region, Form expression (sym x parallel), "
                "5 serial schedules of the per-basis-function tasks; all interleavings in Threads.tla")
    ctx.assumptions = ["exact comparison (tolerance 0) relies on integer data being exactly representable in float64",
                       "true pre-emptive interleavings inside NumPy are covered by the Threads.tla model only; real runs replay serial orders and genuine threads",
                       "sym=True of the expression API presupposes a symmetric weak form (shown necessary by Threads_sym_asym)"]
