"""C15: load histories (Solver.tla protocol with deeper substep bounds + History.tla material machines)."""
import os

from . import c07


def run(ctx):
    thorough = ctx.tier == "thorough"
    c07.model(ctx, "SolverMC15.cfg")
    beh = c07.behaviours(ctx, "SolverDump15.cfg")
    cases = os.path.join(ctx.work, "ramps.json")
    r = ctx.tlc_model("HistoryMC", "HistoryMCThorough.cfg" if thorough else "HistoryMC.cfg", env={"CASES_FILE": cases}, workers=4)
    ctx.require_model_ok(r)
    shards = ctx.drive("d15", nshards=16, extra=["--opt", "behaviours=%s;maxiter=2;cases=%s" % (beh, cases)], timeout=7200)
    laws = [s for s in shards if "-laws." in s]
    traces = [s for s in shards if "-laws." not in s]
    ctx.drift_prefixes = ("Mismatch-",)     # structural deviation from Solver.tla without a property-level reason (see SolverTrace!Reasons)
    ctx.validate("SolverTrace", traces, count=False)
    ntr = 0
    for s in traces:
        with open(s) as f:
            for line in f:
                if '"ev":"TraceBegin"' in line:
                    ntr += 1
                    tid = line.split('"tid":"')[1].split('"')[0]
                    ctx.nontrivial.add(tid)
                    if len(ctx.samples) < 2:
                        ctx.samples.append({"trace": tid})
    ctx.extra["traces"] = ntr
    ctx.records += ntr
    ctx.validate("HistoryTrace", laws)
    ctx.require_clauses(["RampUpdate", "Commit", "Return", "Raise", "RunningMax", "PrimaryPathEqualsBase", "ReloadRetracesUnload",
                         "YieldHolds", "PlasticStrainMonotone", "ElasticPathIndependence"])
    ctx.rule = ("every ramp over 3 load levels up to length %d (exported by HistoryMC) run as a real traced job for hand-coded and AD "
                "Ogden-Roxburgh, small-strain plasticity and an elastic body; every behaviour of SolverMC with <=3 substeps "
                "(non-converging substep at every position) replayed with scripted items; non-trivial = ramp with >= 2 distinct levels "
                "or distinct behaviour" % (4 if thorough else 3))
    ctx.exhaustive = True
    ctx.assumptions = ["history laws at 2^-20 resolution on an 8-cell mesh (64 quadrature points)",
                       "base-material energy/stress from a direct call of the base model (hand-coded NeoHooke for the AD variant)"]
