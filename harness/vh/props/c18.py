"""C18: modal analysis (Modal.tla)."""


def run(ctx):
    r = ctx.tlc_model("ModalTrace", "ModalRef.cfg", workers=1, env={"TRACE_FILE": "/dev/null", "VERDICT_FILE": "/dev/null"})
    ctx.require_model_ok(r)
    shards = ctx.drive("d18", nshards=16, timeout=7200)
    ctx.validate("ModalTrace", shards, heap="3g")
    ctx.require_clauses(["Eigenpair", "ModeVanishesOnDof0", "Frequency", "RigidModes", "RigidMotionInvariance", "ExtraFieldsNoMass"])
    ctx.rule = ("free-vibration jobs on hex / tet / quad / quad8 bodies with seeded elastic constants, densities, boundary dictionaries and "
                "numbers of modes; multi-item pencils with the items' scale factors in every pattern of the item order; unconstrained bodies in 2D / 3D before and after a rational rotation + translation; a mixed u-p-J container")
    ctx.assumptions = ["the eigen-solver's convergence is not modelled: returned pairs are validated a posteriori (K, M re-assembled from fresh items)",
                       "fixed point: matrices 2^-16, modes 2^-20, eigenvalues 2^-12"]
