"""C13: boundary regions (Surface.tla / SurfaceMC.tla / SurfaceTrace.tla)."""


def run(ctx):
    r = ctx.tlc_model("SurfaceMC", workers=8)
    ctx.require_model_ok(r)
    shards = ctx.drive("d13", nshards=16)
    ctx.validate("SurfaceTrace", shards)
    ctx.require_clauses(["FaceTableIsRotationOnFace", "FaceNodes", "AllFacesOnce", "SurfaceSelection", "SelectionCount", "UnitNormals",
                         "TangentsUnitOrthogonal", "Outward", "Closed", "Divergence", "PerCellClosed", "Ensure3d"])
    ctx.rule = ("face tables of all six cell types extracted from the tree (identity cell); surface records: cell type x mesh (plain / affine / "
                "interior-perturbed / curved / L-shaped with interior faces) x density x only_surface x ensure_3d + masked faces; selection "
                "records: all 512 point masks of a 2x2 quad mesh x only_surface (exhaustive) + seeded masks on the other types")
    ctx.assumptions = ["geometric clauses at 2^-20 with tolerance 16 + 4 ulp per summed term",
                       "outward orientation tested against the centre of the face's own cell (mildly distorted convex cells)"]
