"""C12: independent implementations agree; documented initial moduli (Material.tla)."""
from . import c03


def run(ctx):
    c03.run(ctx, "c12", ("AgreeStress", "AgreeElasticity", "InitialModuli"))
    ctx.rule = ("every documented pair (jax <-> tensortrax namesakes; hand-coded NeoHooke / Ogden-Roxburgh <-> AD; SVK <-> total-Lagrange wrapper; "
                "linear elasticity component-wise <-> tensor notation <-> small-strain framework; plane strain / stress <-> 3D; orthotropic "
                "linear elasticity <-> orthotropic SVK via the Lame converter) on lattice inputs; A(1) of every isotropic model vs the isotropic "
                "tangent with the initial moduli its docstring states (closed forms transcribed into Material.tla)")
    ctx.assumptions = ["per-pair tolerance: 8 ulp at 2^-20 + 2^-15 relative; jax principal-stretch models with documented 1e-4 eigenvalue "
                       "regularisation: 2^-9 relative", "dyadic parameter sets; extended tube moduli at delta = 0 (documented closed form)"]
