"""C16: mesh generators and transformations (MeshOps.tla / MeshOpsMC.tla / MeshOpsTrace.tla)."""
import os

from ..core import MachineryError


def bag(ctx):
    """mesh-container part: programs of container operations (BagMC) executed on real MeshContainers, every step judged by BagTrace"""
    thorough = ctx.tier == "thorough"
    r = ctx.tlc("BagMC", "BagMC3.cfg" if thorough else "BagMC.cfg", workers=1, timeout=1800, tag="bagprograms")
    if r["rc"] != 0:
        raise MachineryError("BagMC failed rc=%s\n%s" % (r["rc"], r["out"][-3000:]))
    lines = [ln for ln in r["out"].splitlines() if "PROGRAM|" in ln]
    path = os.path.join(ctx.work, "bagprograms.txt")
    with open(path, "w") as f:
        f.write("\n".join(lines) + "\n")
    ctx.extra["bag_programs_exported"] = len(lines)
    shards = ctx.drive("d16b", nshards=16, extra=["--opt", "programs=%s" % path + (";limit=12000" if thorough else "")], name="d16b")
    ctx.drift_clauses |= {"CopyIsFresh"}          # aliasing bookkeeping, not stated by the property
    ctx.validate("BagTrace", shards)


def run(ctx):
    thorough = ctx.tier == "thorough"
    r = ctx.tlc("MeshOpsMC", "MeshOpsMC3.cfg" if thorough else "MeshOpsMC.cfg", workers=1, timeout=1800, tag="programs")
    if r["rc"] != 0:
        raise MachineryError("MeshOpsMC failed rc=%s\n%s" % (r["rc"], r["out"][-3000:]))
    lines = [ln for ln in r["out"].splitlines() if "PROGRAM|" in ln]
    path = os.path.join(ctx.work, "programs.txt")
    with open(path, "w") as f:
        f.write("\n".join(lines) + "\n")
    ctx.extra["programs_exported"] = len(lines)
    opt = "programs=%s" % path + (";limit=6000" if thorough else "")
    shards = ctx.drive("d16", nshards=16, extra=["--opt", opt], timeout=7200)
    shards += ctx.drive("d16g", nshards=4, name="d16g")
    ctx.validate("MeshOpsTrace", [s for s in shards if "d16g" not in s], heap="3g")
    ctx.validate("MeshGenTrace", [s for s in shards if "d16g" in s])
    bag(ctx)
    ctx.require_clauses(["PositiveOrientation", "NoUnusedPoints", "NoDuplicatePoints", "CoversDomain", "FacesAtMostTwice", "CellShapesPreserved",
                         "VolumePreserved", "SameMesh", "FlipInverts", "ExpandVolume", "RevolveVolume", "CornersUnmoved",
                         "MidpointsAreCentroids", "CellsOwnPoints", "GenOriented", "GenArea", "SharedPoints", "OldCellsKeepCoordinates",
                         "AppendedEqualsArgument", "NoDuplicatePointsAfterMerge", "StackIsConcatenation", "PoppedIsListed"])
    ctx.rule = ("every program (seed generator + operations applicable to the current cell type) up to depth %d exported by MeshOpsMC; one "
                "record per distinct program prefix = one judged step; plus fixed-point records for the non-lattice generators (Circle, "
                "Triangle, arbitrary-order Lagrange, generic rotation angles)" % (3 if thorough else 2))
    ctx.exhaustive = not thorough
    ctx.assumptions = ["lattice meshes (coordinates multiples of 1/8) with <= 16 cells; rotations by 90 degrees, axis/diagonal mirrors, unit "
                       "translations, expansion by unit layers, revolution by 90-degree segments",
                       "generic angles / Circle / Triangle / Lagrange generators: orientation and area/volume in 2^-20 fixed point"]
