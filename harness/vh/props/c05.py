"""C05: quadrature exactness (Quadrature.tla / QuadratureMC.tla / QuadratureTrace.tla)."""


def run(ctx):
    r = ctx.tlc_model("QuadratureMC")
    ctx.require_model_ok(r)
    shards = ctx.drive("d05", nshards=16)
    ctx.validate("QuadratureTrace", shards, heap="3g")
    ctx.require_clauses(["Moments", "WeightSum", "Inside", "TensorStructure", "BoundaryVariant",
                         "PermuteOnlyReorders", "InverseScheme"])
    ctx.rule = ("one record per scheme x order x dim x permute (rule records: all monomials up to the documented degree, "
                "complete by linearity; quick tier restricts the largest tensor rules to axis/diagonal/extreme exponents); "
                "structural records for tensorisation, boundary variants, permutation, inverse scheme")
    ctx.exhaustive = ctx.tier == "thorough"
    ctx.assumptions = ["exactness decided to (256+4n)*2^-28 absolute on normalised moments (Gauss points are irrational)",
                       "sphere rule used antipodally symmetrised (documented 2x21 points): odd total degrees vanish identically"]
