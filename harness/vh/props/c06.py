"""C06: regions (Region.tla / RegionTrace.tla, exact volumes from MeshOps.tla)."""


def reload(ctx):
    """reload part: cache coherence of regions w.r.t. mesh updates (Reload.tla), programs exported by ReloadMC, executed steps judged
    by ReloadTrace"""
    import os
    from ..core import MachineryError
    thorough = ctx.tier == "thorough"
    r = ctx.tlc_model("ReloadTrace", "ReloadRef.cfg", workers=1, env={"TRACE_FILE": "/dev/null", "VERDICT_FILE": "/dev/null"})
    ctx.require_model_ok(r)
    if thorough:
        r = ctx.tlc_model("ReloadMC", "ReloadMC4.cfg", workers=16, timeout=3600)        # theorems only, depth 4
        ctx.require_model_ok(r)
    r = ctx.tlc("ReloadMC", "ReloadMC3.cfg" if thorough else "ReloadMC.cfg", workers=1, timeout=1800, tag="reloadprograms")
    if r["rc"] != 0:
        raise MachineryError("ReloadMC failed rc=%s\n%s" % (r["rc"], r["out"][-3000:]))
    lines = [ln for ln in r["out"].splitlines() if "PROGRAM|" in ln]
    sim = ctx.tlc("ReloadMC", "ReloadSim.cfg", workers=1, timeout=1800, tag="reloadsim",
                  simulate="num=%d" % (100 if thorough else 20), extra_args=["-depth", "12", "-seed", str(2000 + ctx.seed)])
    if sim["rc"] != 0:
        raise MachineryError("ReloadMC simulation failed rc=%s\n%s" % (sim["rc"], sim["out"][-3000:]))
    lines += [ln for ln in sim["out"].splitlines() if "PROGRAM|" in ln]
    path = os.path.join(ctx.work, "reloadprograms.txt")
    with open(path, "w") as f:
        f.write("\n".join(lines) + "\n")
    ctx.extra["reload_programs_exported"] = len(set(lines))
    shards = ctx.drive("d06r", nshards=16, extra=["--opt", "programs=%s" % path + (";limit=20000" if thorough else "")], name="d06r")
    ctx.drift_clauses |= {"EnabledInModel", "RegionsConform", "FlagsConform", "MeshBindingConforms", "GeometryVersionConforms",
                          "HessianVersionConforms", "PointsVersionConforms"}
    ctx.validate("ReloadTrace", shards)


def run(ctx):
    r = ctx.tlc_model("RegionTrace", "RegionRef.cfg", workers=1, env={"TRACE_FILE": "/dev/null", "VERDICT_FILE": "/dev/null"})
    ctx.require_model_ok(r)
    shards = ctx.drive("d06", nshards=16, timeout=7200)
    ctx.validate("RegionTrace", shards, heap="3g")
    reload(ctx)
    ctx.require_clauses(["Positive", "VolumeSum", "RigidInvariance", "FamilyAgreement", "NegativeWarns", "ReproduceValue", "ReproduceGradient",
                         "ReproduceHessian", "PlaneStrainPadding", "AxiHoop", "DualConstantPerCell", "GramExact", "UniformEqualsGeneral",
                         "AstypeCopy", "FreshAfterReload", "CachedArraysGenuine"])
    ctx.rule = ("12 volume templates x mesh (plain / affine lattice map / interior perturbation / curved) x polynomial coefficient sets "
                "(degree <= element order on affine cells, <= 1 on distorted and curved cells; hessians where the template offers them), 6 boundary "
                "templates, arbitrary-order Lagrange, constant/dual, plane-strain and axisymmetric field kinds, Gram exactness, uniform path, "
                "float32 copy, flipped cells; non-trivial = polynomial degree >= 1 or any geometric record")
    ctx.assumptions = ["lattice meshes with 4-8 cells; fixed point 2^-20; tolerances 24 ulp (values), 96 (gradients), 384 (hessians)",
                       "exact volumes for straight-sided meshes only (curved meshes: positivity, rigid invariance)"]
