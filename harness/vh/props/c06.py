"""C06: regions (Region.tla / RegionTrace.tla, exact volumes from MeshOps.tla)."""


def run(ctx):
    r = ctx.tlc_model("RegionTrace", "RegionRef.cfg", workers=1, env={"TRACE_FILE": "/dev/null", "VERDICT_FILE": "/dev/null"})
    ctx.require_model_ok(r)
    shards = ctx.drive("d06", nshards=16, timeout=7200)
    ctx.validate("RegionTrace", shards, heap="3g")
    ctx.require_clauses(["Positive", "VolumeSum", "RigidInvariance", "FamilyAgreement", "NegativeWarns", "ReproduceValue", "ReproduceGradient",
                         "ReproduceHessian", "PlaneStrainPadding", "AxiHoop", "DualConstantPerCell", "GramExact", "UniformEqualsGeneral",
                         "AstypeCopy"])
    ctx.rule = ("12 volume templates x mesh (plain / affine lattice map / interior perturbation / curved) x polynomial coefficient sets "
                "(degree <= element order on affine cells, <= 1 on distorted and curved cells; hessians where the template offers them), 6 boundary "
                "templates, arbitrary-order Lagrange, constant/dual, plane-strain and axisymmetric field kinds, Gram exactness, uniform path, "
                "float32 copy, flipped cells; non-trivial = polynomial degree >= 1 or any geometric record")
    ctx.assumptions = ["lattice meshes with 4-8 cells; fixed point 2^-20; tolerances 24 ulp (values), 96 (gradients), 384 (hessians)",
                       "exact volumes for straight-sided meshes only (curved meshes: positivity, rigid invariance)"]
