"""C04: element shape functions (Element.tla / ElementMC.tla / ElementTrace.tla)."""


def run(ctx):
    r = ctx.tlc_model("ElementMC")           # reference instances accepted, negatives rejected
    ctx.require_model_ok(r)
    shards = ctx.drive("d04", nshards=16)
    ctx.validate("ElementTrace", shards, heap="4g")
    ctx.require_clauses(["PartitionOfUnity", "Kronecker", "Completeness", "GradIsDerivative",
                         "HessIsDerivative", "HessSymmetric", "BubbleVanishesOnBoundary",
                         "PermSameFunctions", "VtkOrder"])
    ctx.rule = ("one record per element formulation (20 hand-written variants incl. bubble multipliers; "
                "ArbitraryOrderLagrange per order/dim/permute) sampled on the decisive lattice {-3..m+3}^dim; "
                "a record is non-trivial if it is a distinct formulation (all are)")
    ctx.exhaustive = True
    ctx.assumptions = ["shape functions are polynomials of degree <= 6 per variable (7-point stencil exact)",
                       "IEEE double evaluation of the element code at dyadic/rational lattice points",
                       "3-d Lagrange of order 5-6 only through node/permutation records (no lattice record)"]
