"""C10: reduced / condensed / fast-path formulations equal the full ones (Reduced.tla)."""


def run(ctx):
    r = ctx.tlc_model("ReducedTrace", "ReducedRef.cfg", workers=1, env={"TRACE_FILE": "/dev/null", "VERDICT_FILE": "/dev/null"})
    ctx.require_model_ok(r)
    shards = ctx.drive("d10", nshards=16, timeout=7200)
    ctx.validate("ReducedTrace", shards, heap="3g")
    ctx.require_clauses(["PlaneStrainForce", "PlaneStrainStiffness", "AxiEnergyDerivative", "AxiVsRevolved", "CondensedVsThreeField", "UniformVsGeneral"])
    ctx.rule = ("pairs built from one case: plane-strain quad body vs the extruded one-layer hexahedron slab (TLC ties the two layers), "
                "axisymmetric nodal forces vs the 7-point stencil of Pi = sum 2 pi R W dA, axisymmetric forces vs ring sums of the revolved "
                "model with 8/16/32 segments, converged nearly-incompressible body vs converged three-field formulation for several bulk "
                "moduli / load levels on 3-d, plane-strain and axisymmetric fields, uniform vs general region; lattice-perturbed meshes, lattice states")
    ctx.assumptions = ["convergence to the revolved model is decided as a finite refinement law (>= 3x per doubling, bound at n = 32)",
                       "plane strain vs slab for linear cells (the serendipity slab would need thickness mid-nodes)"]
