"""C01: assembled tangent = derivative of assembled vector (Items.tla)."""


def run(ctx):
    r = ctx.tlc_model("ItemsTrace", "ItemsRef.cfg", workers=1, env={"TRACE_FILE": "/dev/null", "VERDICT_FILE": "/dev/null"})
    ctx.require_model_ok(r)
    shards = ctx.drive("d01", nshards=16, extra=["--opt", "which=c01"], timeout=7200)
    ctx.validate("ItemsTrace", shards, heap="3g")
    ctx.require_clauses(["Tangent", "SymmetricTangent", "MultiplierVector", "MultiplierMatrix"])
    ctx.rule = ("one record per item kind (solid bodies on 3D / plane-strain / axisymmetric / mixed u-p-J fields for several element families and "
                "materials, nearly-incompressible body at a settled state, follower pressure 3D/plane/axisymmetric, Cauchy-stress load, MPC, "
                "contact closed/open, point load, body force, gravity, form item) on a lattice-perturbed mesh at a lattice state; per record "
                "8-24 unit probe directions + one lattice direction whose matrix-vector product TLC forms itself")
    ctx.assumptions = ["stencil step 2^-6; fixed point 2^-22 (differences) / 2^-18 (matrix); tolerance 96 ulp + 2^-13 relative",
                       "states with min det F >= 0.5 on the whole stencil (spec predicate on logged data)",
                       "polynomial materials are decided as identities up to round-off; transcendental ones at ~1e-5 resolution",
                       "contact only away from the open/closed switching point"]
