"""C08: global numbering and boundary partition (Dof.tla / DofMC.tla / DofTrace.tla)."""


def run(ctx):
    r = ctx.tlc_model("DofMC", workers=8)
    ctx.require_model_ok(r)
    shards = ctx.drive("d08", nshards=16)
    ctx.validate("DofTrace", shards)
    ctx.require_clauses(["Disjoint", "Cover", "Dof0Exact", "Dof1Exact", "Ext0Exact", "BoundaryDofs", "ValuesOrder", "UpdateSplit",
                         "AssemblyRow", "IndicesEai", "LoadCaseExact", "LoadCasePartition"])
    ctx.rule = ("partition: every dof mask of one boundary on a 4-point/2-component container (256, exhaustive) + seeded random containers "
                "(line / quad / mixed u-p-J with dual fields / three fields of dims 3,1,2; 0-2 cell-less points; 0-3 possibly overlapping "
                "boundaries of kinds dof mask, point mask + skip, coordinate predicates and/or + skip; scalar, per-dof and broadcast-row values); "
                "numbering: values / field update / single-component assembly probes / index arrays; load cases: all flag combinations of "
                "symmetry, uniaxial, biaxial, shear on 4 lattice meshes x field kinds; non-trivial = at least one boundary")
    ctx.assumptions = ["biaxial without symmetry: the docstring does not fix -+move vs -+move/2 on the left/right faces; both readings accepted",
                       "symmetry: the plane x_k = 0 fixes the normal component k (code comment and physics; the docstring table says otherwise)"]
