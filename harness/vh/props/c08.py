"""C08: global numbering and boundary partition (Dof.tla / DofMC.tla / DofTrace.tla)."""

from ..core import MachineryError


def fields(ctx):
    """field-update part: heap model of container operations (Fields.tla), programs exported by FieldsMC, executed steps judged by FieldsTrace"""
    import os
    thorough = ctx.tier == "thorough"
    r = ctx.tlc_model("FieldsTrace", "FieldsRef.cfg", workers=1, env={"TRACE_FILE": "/dev/null", "VERDICT_FILE": "/dev/null"})
    ctx.require_model_ok(r)
    if thorough:
        r = ctx.tlc_model("FieldsMC", "FieldsMC4.cfg", workers=16, timeout=3600)        # theorems only, depth 4
        ctx.require_model_ok(r)
    r = ctx.tlc("FieldsMC", "FieldsMC.cfg", workers=1, timeout=1800, tag="fieldprograms")
    if r["rc"] != 0:
        raise MachineryError("FieldsMC failed rc=%s\n%s" % (r["rc"], r["out"][-3000:]))
    lines = [ln for ln in r["out"].splitlines() if "PROGRAM|" in ln]
    # long random programs (simulation mode of the same spec)
    sim = ctx.tlc("FieldsMC", "FieldsSim.cfg", workers=1, timeout=1800, tag="fieldsim",
                  simulate="num=%d" % (200 if thorough else 20), extra_args=["-depth", "10", "-seed", str(1000 + ctx.seed)])
    if sim["rc"] != 0:
        raise MachineryError("FieldsMC simulation failed rc=%s\n%s" % (sim["rc"], sim["out"][-3000:]))
    lines += [ln for ln in sim["out"].splitlines() if "PROGRAM|" in ln]
    path = os.path.join(ctx.work, "fieldprograms.txt")
    with open(path, "w") as f:
        f.write("\n".join(lines) + "\n")
    ctx.extra["field_programs_exported"] = len(set(lines))
    shards = ctx.drive("d08f", nshards=16, extra=["--opt", "programs=%s" % path], name="d08f")
    # aliasing bookkeeping beyond what the property states (which objects are shared) is conformance with Fields!Apply only
    ctx.drift_clauses |= {"EnabledInModel", "FieldSharingConforms", "ArraySharingConforms"}
    ctx.validate("FieldsTrace", shards)


def run(ctx):
    r = ctx.tlc_model("DofMC", workers=8)
    ctx.require_model_ok(r)
    shards = ctx.drive("d08", nshards=16)
    ctx.validate("DofTrace", shards)
    fields(ctx)
    ctx.require_clauses(["Disjoint", "Cover", "Dof0Exact", "Dof1Exact", "Ext0Exact", "BoundaryDofs", "ValuesOrder", "UpdateSplit",
                         "AssemblyRow", "IndicesEai", "LoadCaseExact", "LoadCasePartition",
                         "ContainersConform", "ContentConforms"])
    ctx.rule = ("partition: every dof mask of one boundary on a 4-point/2-component container (256, exhaustive) + seeded random containers "
                "(line / quad / mixed u-p-J with dual fields / three fields of dims 3,1,2; 0-2 cell-less points; 0-3 possibly overlapping "
                "boundaries of kinds dof mask, point mask + skip, coordinate predicates and/or + skip; scalar, per-dof and broadcast-row values); "
                "numbering: values / field update / single-component assembly probes / index arrays; load cases: all flag combinations of "
                "symmetry, uniaxial, biaxial, shear on 4 lattice meshes x field kinds; non-trivial = at least one boundary")
    ctx.assumptions = ["biaxial without symmetry: the docstring does not fix -+move vs -+move/2 on the left/right faces; both readings accepted",
                       "symmetry: the plane x_k = 0 fixes the normal component k (code comment and physics; the docstring table says otherwise)"]
