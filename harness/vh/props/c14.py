"""C14: force balance and load resultants (Items.tla)."""


def run(ctx):
    r = ctx.tlc_model("ItemsTrace", "ItemsRef.cfg", workers=1, env={"TRACE_FILE": "/dev/null", "VERDICT_FILE": "/dev/null"})
    ctx.require_model_ok(r)
    shards = ctx.drive("d01", nshards=16, extra=["--opt", "which=c14"], timeout=7200, name="d14")
    ctx.validate("ItemsTrace", shards, heap="3g")
    ctx.require_clauses(["ForceBalance", "MomentBalance", "Resultant", "PointLoadExact", "PointLoadValues", "SkippedAxesFree", "PressureResultant", "MassSymmetric", "MassTotal",
                         "MassPSD"])
    ctx.rule = ("internal forces of solid bodies (hex / tet / plane strain / axisymmetric / mixed; objective materials) at lattice states on "
                "lattice-perturbed meshes: force and moment sums about spec-issued points with exact positions; body force / gravity "
                "resultants, point loads, follower pressure on one face and on the closed surface (vector areas computed by TLC from the "
                "lattice positions), MPC self-equilibrium, mass matrices (symmetry, total mass, zero cross-direction coupling, "
                "v^T M v >= 0 for all v in {-1,0,1}^8 of a direction block)")
    ctx.assumptions = ["fixed point 2^-20; tolerance 16 ulp + 1 ulp per summed term", "axisymmetric bodies: axial force sum only, as stated",
                       "assemble.mass() of an axisymmetric body and 2-vector gravity on axisymmetric fields are unsupported calls (they raise) and are not cases"]
