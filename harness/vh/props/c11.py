"""C11: frame indifference and balance laws of finite-strain models (Material.tla)."""
from . import c03


def run(ctx):
    c03.run(ctx, "c11", ("Objective", "KirchhoffSymmetric", "StressFree", "MajorSymmetry", "Isotropic"))
    ctx.rule = ("every finite-strain model x rational rotations Q = N/q (q in {1,3,7,9}) x lattice deformation gradients: q P(QF) = N P(F), "
                "P F^T symmetric, P(1, virgin) = 0, major symmetry of A for hyperelastic models, q P(F Q^T) = P(F) N^T for isotropic models "
                "(micro-sphere and anisotropic models: objectivity only)")
