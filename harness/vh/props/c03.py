"""C03: stress and elasticity are true derivatives (Material.tla)."""


def run(ctx, which="c03", clauses=("ElastIsDP", "StressIsDW", "MixedBlocks", "AlgorithmicTangent", "NoAlias")):
    r = ctx.tlc_model("MaterialTrace", "MaterialRef.cfg", workers=1, env={"TRACE_FILE": "/dev/null", "VERDICT_FILE": "/dev/null"})
    ctx.require_model_ok(r)
    shards = ctx.drive("d03", nshards=16, extra=["--opt", "which=" + which], timeout=7200, name="d" + which[1:])
    ctx.validate("MaterialTrace", shards, heap="3g")
    ctx.require_clauses(list(clauses))
    ctx.rule = ("every built-in model (hand-coded, all tensortrax and jax hyperelastic models, composite, total-Lagrange wrapper, MORPH, "
                "pseudo-elastic virgin/loaded, mixed u-p-J wrappers, small-strain plasticity elastic/plastic, linear elastic variants, Laplace) "
                "with one dyadic parameter set x lattice deformation gradients F = 1 + Z/8 (det in [0.6, 1.7], distinct stretches) x unit and "
                "lattice probe directions; all F of a record evaluated as one batch")
    ctx.assumptions = ["lattice sample at ~1e-5 resolution, not a proof (transcendental energies)", "stencil step 2^-6, fixed state variables",
                       "non-smooth points avoided by construction (stretches distinct, loaded history well above / virgin below the current energy, plastic loading)"]
