#!/bin/sh
# tools/confirm_seeded.sh <ID> <k>   -- confirms a delivered change in its scratch worktree /tmp/wt/<ID>:
# demo passes on the clean tree, fails with the change; the unedited test suite passes with the change.
ID=$1; K=$2; W=/tmp/wt/$ID
cd $W || exit 2
git checkout -q -- . 
PYTHONPATH=$W/src FELUPE_VERBOSE=false /venv/bin/python demo$K.py > /tmp/wt/$ID.demo$K.clean.log 2>&1; c=$?
git apply patch$K.diff || { echo "$ID-$K apply-failed"; exit 2; }
PYTHONPATH=$W/src FELUPE_VERBOSE=false /venv/bin/python demo$K.py > /tmp/wt/$ID.demo$K.mut.log 2>&1; m=$?
PYTHONPATH=$W/src /venv/bin/python -m pytest -q -p no:cacheprovider --timeout=900 tests > /tmp/wt/$ID.tests$K.log 2>&1; t=$?
git checkout -q -- .
git clean -fdq -e 'patch*.diff' -e 'demo*.py' -e 'notes*.txt' -e '*.diff' >/dev/null 2>&1
echo "$ID-$K demo_clean_rc=$c demo_mutant_rc=$m tests_rc=$t $(tail -1 /tmp/wt/$ID.tests$K.log)"
