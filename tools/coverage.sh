#!/bin/sh
# tools/coverage.sh [ID ...]  -- diagnostic: line coverage of /repo/src/felupe by the drivers of the quick checks
# (which parts of the library the issued cases never reach).  Writes /verif/.work-free report to stdout; scratch under /tmp.
cd "$(dirname "$0")/.."
ROOT=$(pwd)
D=$(mktemp -d /tmp/verifcov.XXXXXX)
IDS=${*:-C01 C02 C03 C04 C05 C06 C07 C08 C09 C10 C11 C12 C13 C14 C15 C16 C17 C18 C19 C20}
for id in $IDS; do VERIF_COVERAGE=$D bin/check $id > $D/$id.log 2>&1; echo "$id rc=$?" >&2; done
cd $D && /venv/bin/python -m coverage combine -q --data-file=$D/.coverage $D >/dev/null 2>&1
/venv/bin/python -m coverage report --data-file=$D/.coverage --skip-covered -m 2>/dev/null
cd /; rm -rf $D
git -C "$ROOT" checkout -q -- evidence 2>/dev/null || true
