#!/bin/sh
# tools/process_round4.sh <ID>  -- confirms the change delivered in /tmp/wt/r4-<ID> (demo + full unedited test suite) and runs the
# check of its property against it; prints both outcomes
cd "$(dirname "$0")/.."
tools/confirm_seeded.sh r4-$1 1 > /tmp/wt/r4-$1.confirm.txt 2>&1 &
tools/try_mutant.sh /tmp/wt/r4-$1/patch1.diff $1 > /tmp/wt/r4-$1.try.txt 2>&1 &
wait
cat /tmp/wt/r4-$1.confirm.txt /tmp/wt/r4-$1.try.txt
