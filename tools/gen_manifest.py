#!/usr/bin/env python3
"""Regenerates /verif/MANIFEST.json from the table below (single source of truth for the interface)."""
import json
import os

HERE = os.path.dirname(os.path.dirname(os.path.abspath(__file__)))

CHECKS = {
    "C04": dict(
        engine="Element",
        technique="TLA+ law module Element.tla evaluated by TLC on lattice samples of the real element classes "
                  "(polynomial identity on a decisive lattice, 7-point exact stencil) + TLC-checked reference/negative model ElementMC",
        text="TLC checks the shape-function laws (Kronecker, partition of unity, completeness in the Newton basis, gradient/hessian "
             "= exact stencil derivative, hessian symmetry, bubble vanishing, permutation-only-reorders) on values logged from every "
             "element class on a tensor lattice that is decisive for polynomials of the element's degree (+2), so agreement is an identity "
             "on the whole reference cell, not a sample; ElementMC shows the laws accept exact Lagrange bases and reject one mutation per clause.",
        note="Trusted: TLC, the driver's quantisation (round to 2^-17..2^-20; Lagrange order 5-6 at 2^-14..2^-15), IEEE evaluation of the element code. "
             "3-d Lagrange orders 5-6 are covered by node/permutation records only; completeness of high-order Lagrange partly via the documented tensor-space clause.",
        ref="5/C04"),
    "C05": dict(
        engine="Quadrature",
        technique="TLA+ law module Quadrature.tla: TLC recomputes all monomial moments of every scheme in 2^28 fixed point from the logged "
                  "points/weights and compares with exact rational integrals; structural clauses (tensorisation, boundary variant, permutation, inverse); "
                  "reference/negative model QuadratureMC",
        text="For every scheme x order x dim x permute TLC evaluates the moment law for all monomials up to the documented degree (complete by "
             "linearity), containment in the closed reference domain, weight sum, tensor-product structure with n points per axis, boundary "
             "variants, permutation-only-reorders and the inverse scheme on the points/weights the real classes return; QuadratureMC shows "
             "that rational textbook rules satisfy the laws and that one mutation per clause is rejected.",
        note="Exactness is decided to (256+4n)*2^-28 absolute on normalised moments, not symbolically (Gauss points are irrational); for the 8- and "
             "9-point tensor rules the point-count/tensor-structure clauses carry the decision. Sphere rule: antipodally symmetrised as documented (2x21). "
             "Quick tier restricts the largest 3-d tensor rules to axis/diagonal/extreme exponent tuples; thorough uses complete sets.",
        ref="5/C05"),
    "C07": dict(
        engine="Solver",
        technique="explicit TLA+ spec of the solver stack (Solver.tla) model-checked exhaustively by TLC (SolverMC, incl. liveness and 6 seeded "
                  "model faults that must be rejected); trace validation of real runs recorded by a run-time tracer (SolverTrace.tla); replay of "
                  "every TLC behaviour into the real Job/Step/newtonrhapson with scripted items; numeric clauses as TLA+ laws (NewtonLaws.tla)",
        text="TLC exhaustively checks the protocol (return only on success, raise at maxiter/NaN, commit only inside a successful check and only "
             "the trial state of the returned iterate, start from the previous converged iterate, termination) for all outcome-oracle sequences "
             "within the bounds; every event of traced real solves and of all replayed model behaviours must be explained by a spec action with "
             "its logged fields bound, with the invariants re-evaluated after each event (total verdict); bit-exact prescribed values, an "
             "independently re-assembled residual below tolerance, one-step convergence of linear problems and the partitioned integer solve "
             "are decided by TLC on logged observables.",
        note="Bounds: 2 items (1 stateful), <=2 steps x <=2 substeps, maxiter 2, 2 consecutive runs (706k states). Identities are 48-bit digests. "
             "The tracer wraps felupe's module globals/defaults at run time (no source hooks); numerics of the linear solver are not modelled.",
        ref="5/C07"),
    "C15": dict(
        engine="Solver",
        technique="Solver.tla model-checked with deeper substep bounds (SolverMC15) + replay of all its behaviours (non-converging substep at every "
                  "position) into the real Job/Step code + trace validation; material history machines as TLA+ laws (History.tla) on every ramp "
                  "enumerated by HistoryMC.tla",
        text="The step/substep protocol (i-th ramp value in the i-th substep, start from the previous converged iterate, one result per converged "
             "substep, stop at the first failure, state variables change only in a converged check and to the trial state of the converged iterate) "
             "is checked by TLC on the model for all outcome sequences within the bounds and on every event of the replayed and real traces. "
             "Running maximum, primary path = base material, reload retraces unload, yield condition, monotone plastic strain and path "
             "independence of elastic bodies are decided by TLC on logged per-point history data for every ramp over 3 load levels up to the bound.",
        note="Bounds: <=2 steps x <=3 substeps x maxiter 2 (3008 behaviours); ramps: all level sequences of length <=3 (quick) / <=4 (thorough) plus "
             "4 longer unload/reload cycles; 8-cell mesh; resolution 2^-20. Viscoelastic models are not part of this property's history laws.",
        ref="5/C15"),
    "C20": dict(
        engine="Solver",
        technique="frame log of Solver.tla (model-checked; seeded frame-skip fault rejected) + trace validation of jobs writing files + "
                  "TLA+ law module FileIO.tla evaluated by TLC on written-vs-read-back contents; replay of every SolverMC behaviour with file output",
        text="TLC checks on the model that exactly one frame follows each yielded substep, in order, with times 0,1,2,... and none after a failure; "
             "every Frame event of real and replayed jobs must match that action; the files themselves are read back and TLC decides: frame count = "
             "number of results predicted by the model behaviour, frame displacement bit-identical to the substep's displacement, documented "
             "cell data (quadrature means of F and logarithmic strain vs an independent evaluation), custom point/cell data, mesh round trips "
             "(13 cell types x vtk/vtu/xdmf: points bit-exact incl. 2D padding/cut, cells, cell type), one shared point array for containers, "
             "saved displacements/reaction forces unchanged.",
        note="Files are read back with meshio (trusted). XDMF has no Lagrange cell types in meshio (excluded). Log-strain cell data at 2^-20 +- 8 ulp.",
        ref="5/C20"),
    "C08": dict(
        engine="Dof",
        technique="TLA+ set/function specification Dof.tla (offsets, Dof(f,p,i), boundary selections, Dof0/Dof1/Ext0, documented load-case tables) "
                  "model-checked in small scope (DofMC) and used by TLC to recompute, exactly, what real containers/boundaries/load cases return; "
                  "TLA+ state machine Fields.tla of container operations over a heap (theorems model-checked by FieldsMC; every exported program "
                  "executed on real FieldContainers and every step validated by TLC: Apply(observed pre-state, op) ~ observed post-state)",
        text="TLC enumerates every container of <=2 fields x <=2 points x <=2 components with every pair of dof-mask boundaries and checks the "
             "partition theorems and last-boundary-wins on the model; on real objects (all 256 masks of a 4-point container exhaustively, seeded "
             "random mixed/dual/three-field containers with cell-less points and overlapping boundaries of all kinds and value shapes, all "
             "argument combinations of the four load cases on lattice meshes) TLC recomputes dof0, dof1, ext0, boundary selections, value "
             "order, field update split, assembly rows and index arrays and compares exactly. Field update: every program of container "
             "operations (+=, -=, *= with global vectors, per-field updates, fill, link, copy, a + w, a & b) up to depth 2 plus random programs of "
             "length 10 is executed; TLC checks the content of every value array after every step (global index -> field / entry).",
        note="Load-case semantics transcribed from the docstrings/prose; two documentation ambiguities are accepted in both readings (biaxial "
             "half value without symmetry) or resolved towards the code comment (symmetry fixes the normal component). Coordinates are lattice integers.",
        ref="5/C08"),
    "C13": dict(
        engine="Surface",
        technique="TLA+ incidence/rotation-group specification Surface.tla: TLC decides the face tables extracted from the working tree, the "
                  "surface/mask selection semantics (recomputed from mesh cells) and geometric closure laws on logged arrays; reference tables "
                  "built from the rotation group and negative examples in SurfaceMC",
        text="For each of the six cell types TLC checks that every hard-coded face table renumbers the cell by a proper rotation on the nodes of "
             "the quadrature face, lists exactly the nodes of one face (corners first) and that all 2d outward directions occur once; by "
             "equivariance this gives outward area vectors on every valid mesh. Selection of surface faces (node set occurs once) and mask "
             "restriction are recomputed by TLC for all 512 point masks of a 2x2 quad mesh and sampled masks elsewhere; unit normals, tangents "
             "orthogonal to normals, closure, divergence theorem against the volume region, per-cell closure, outward orientation and 3-d "
             "padding are evaluated by TLC on plain/affine/perturbed/curved/L-shaped meshes.",
        note="Geometric clauses at 2^-20 with a tolerance of 16 + 4 ulp per summed term; the rotation identity is required on the quadrature-face "
             "nodes only (the remaining nodes do not enter any quantity named in C13; the full-cell identity is checked under C06).",
        ref="5/C13"),
    "C02": dict(
        engine="Assembly",
        technique="TLA+ definition of the linear/bilinear form sums (Assembly.tla) recomputed by TLC in exact integer arithmetic on real forms whose "
                  "region arrays were overwritten with integers; schedule model Threads.tla explored exhaustively by TLC; reference instances AssemblyMC",
        text="TLC recomputes, entry by entry, the defining sum over cells, quadrature points, shape functions and components and its placement at "
             "Dof(field, point, component) for value/gradient test and trial spaces, dims 1-3, scalar integrands, plane-strain trimming, "
             "axisymmetric 2 pi R weighting with hoop terms, mixed containers (incl. dual fields) in block modes 1/2/3 with absent blocks, and "
             "compares with the matrix/vector the real IntegralForm assembled -- tolerance 0. Parallel flag, uniform-grid region, Form "
             "expression API (sym x parallel) and serial thread schedules are equalities between observed results; all interleavings of the "
             "thread fan-out are explored on Threads.tla (disjoint and mirrored-symmetric write sets are schedule independent; a "
             "non-symmetric form under sym=True and a racy accumulation are rejected).",
        note="Exactness relies on injected integer arrays (the assembly code is data independent); a second family uses genuine regions for the "
             "uniform-grid equality at 2^-20. Instruction-level pre-emption is covered by the model only.",
        ref="5/C02"),
    "C16": dict(
        engine="MeshOps",
        technique="TLA+ relational semantics of mesh generators/operations on integer lattice meshes (MeshOps.tla: exact signed volumes incl. "
                  "Simpson-exact trilinear hexahedra, centroids, distance bags, face incidence); program space enumerated by the TLC model "
                  "MeshOpsMC.tla (type-state machine) and every program step judged by TLC; fixed-point module MeshGen.tla for non-lattice generators; "
                  "Bag.tla / BagMC.tla / BagTrace.tla: program space of mesh-container operations executed on real MeshContainers, every step judged",
        text="TLC explores every sequence of operations applicable to the current cell type from nine generator seeds (boxes, grids from float and "
             "integer vectors, trapezoid cells) up to the depth bound, "
             "checks the cell-type/dimension typing invariants and exports the programs; each distinct program prefix is executed with the real "
             "Mesh methods and TLC decides, in exact integer geometry, positive orientation (all 27 Simpson points of each hexahedron), covered "
             "volume (generator box, preserved by rigid motions/mirror/triangulation/midpoint insertion/concatenate/stack/disconnect/merge, "
             "z*area for expand, first moment of the section for revolve), preserved cell shapes, unmoved corners, inserted points = centroids "
             "of edges/faces/cells (as a set and, for the quadratic cell types, at their place in the connectivity), cell centroids of the "
             "order-zero conversion, fill_between, merge_duplicate_cells, conforming faces, no unused/duplicate points, double flip = identity. "
             "Circle/Triangle/Lagrange generators, generic angles/normals and merging of near-duplicates through every entry point are judged "
             "in 2^-20 fixed point. Mesh containers: append / += / pop / merge / stack / copy / vertex mesh keep one shared point array, valid "
             "indices and every cell's corner coordinates.",
        note="Lattice meshes with <= 16 cells; quick: depth 2 (1451 programs, exhaustive), thorough: depth 3 (sampled 6000 of 23318). Clauses about "
             "the child presuppose the same fact about the parent (e.g. after disconnect duplicates are intended). Revolution is claimed for "
             "right-handed sweeps of sections on the positive side of the axis (the documented usage); mirror/flip for linear cell types.",
        ref="5/C16"),
    "C17": dict(
        engine="TensorLaws",
        technique="TLA+ definitions of the tensor routines (index-notation evaluator, determinant/cofactor/deviator/Voigt/cross formulas) in "
                  "TensorLaws.tla evaluated exactly by TLC on batches of integer tensors passed through the real routines",
        text="For every routine and mode (all dot/ddot/dddot/dya/crossed-dyadic modes, det, cof, inv via adjugate and on unimodular matrices, dev, "
             "sym, trace, transposes, cross, Voigt with strain doubling, von Mises, in-plane projection, batched solve, linsteps, Seth-Hill at "
             "integer stretches) TLC recomputes every component of every batch item from the definition and compares exactly, including "
             "size-one broadcast axes; flag variants (sym shortcut, supplied determinant, fresh / reused out buffer, parallel) must be "
             "bit-identical to the plain call and leave the inputs' bit patterns unchanged; rotation matrices and eigen-decompositions "
             "are decided through orthogonality / angle / reconstruction laws at 2^-20; the definitions' own consistency "
             "(A adj A = det A 1) is checked by TLC at start-up.",
        note="Integer entries in -2..2 (polynomial routines are thereby decided as identities in practice but formally on the lattice); "
             "eig of non-symmetric tensors, generic Seth-Hill exponents and dtype variants are not covered.",
        ref="5/C17"),
    "C06": dict(
        engine="Region",
        technique="TLA+ law module Region.tla: TLC computes exact volumes of lattice meshes (via MeshOps.tla) and evaluates spec-issued "
                  "integer-coefficient polynomials, their gradients and hessians at the logged quadrature points, comparing with what real "
                  "regions/fields return; reference instance and negatives checked at TLC start-up; TLA+ state machine Reload.tla of "
                  "Mesh.update / Region.reload / Region.copy (freshness theorems model-checked by ReloadMC; exported programs executed on a real "
                  "mesh and regions, every step validated by TLC)",
        text="For every volume template (12), boundary template (6), arbitrary-order Lagrange, constant/dual regions and the plane-strain / "
             "axisymmetric field kinds TLC decides: positive differential volumes summing to the exact geometric volume of straight-sided lattice "
             "meshes, invariance under a rational rotation + translation, agreement across element families, a warning naming a flipped cell, "
             "reproduction of polynomial values / gradients / hessians (degree <= order on affine cells, <= 1 on distorted and curved cells), "
             "exact Gram matrices of the default rule on affine cells, plane-strain padding, axisymmetric hoop entry u_r/R, uniform fast path, "
             "float32 copy. Reload: after every reload (direct, as the callback of Mesh.update, by copy, at creation) in every program up to "
             "depth 2 (+ random programs of length 12) the cached geometry is that of the points the region's mesh currently holds.",
        note="Fixed point 2^-20 with tolerances 24/96/384 ulp for values/gradients/hessians; meshes of 4-8 cells; curved meshes only for "
             "positivity, rigid invariance and linear reproduction. Known finding: the MINI templates put the bubble point into the geometry map "
             "(linear fields are not reproduced; recorded in known_findings.json).",
        ref="5/C06"),
    "C01": dict(
        engine="Items",
        technique="TLA+ law module Items.tla: 7-point central-stencil derivative law stated in integers and evaluated by TLC on symmetric "
                  "differences of the real assembled vectors vs columns / TLC-formed products of the real assembled matrix; symmetry classes "
                  "and the solver's multiplier convention; reference instance (cubic map) and negatives at TLC start-up",
        text="For 25+ item kinds (solid bodies on 3D / plane-strain / axisymmetric / mixed u-p-J fields, several element families and materials, "
             "the nearly-incompressible body at a settled state, follower pressure in 3 field kinds, Cauchy-stress load, multi-point constraint, "
             "contact closed/open, point load, body force, gravity, form item) TLC checks 45 D1 - 9 D2 + D3 = 15 K d for unit and lattice "
             "directions, K = K^T for the symmetric classes, and that fun_items / jac_items return multiplier x (vector, matrix).",
        note="h = 2^-6; resolution ~1e-5 relative (a 2 % error in one stiffness term is detected); polynomial materials are identities up to "
             "round-off, transcendental ones are sampled on lattice states with min det F >= 0.5; 8 (quick) / 24 (thorough) probe columns "
             "per record plus one lattice direction; contact away from switching.",
        ref="5/C01"),
    "C14": dict(
        engine="Items",
        technique="TLA+ balance laws in Items.tla evaluated by TLC on nodal force vectors with lattice-exact current positions (sums, cross "
                  "products, vector areas of bilinear faces, quadratic forms over {-1,0,1}^8)",
        text="TLC sums the internal nodal forces of solid bodies (force balance; moment balance about spec-issued points; axial sum only for "
             "axisymmetric bodies), compares body-force / gravity resultants with density x acceleration x volume, point loads entry by "
             "entry, the follower-pressure resultant with minus the pressure times the integrated current area vector computed by TLC from "
             "the deformed lattice positions (zero on the closed surface), MPC self-equilibrium, and mass matrices: symmetry, total mass per "
             "direction, no cross-direction coupling, v^T M v >= 0 for every v in {-1,0,1}^8.",
        note="2^-20 fixed point; hex / tet / plane strain / axisymmetric / mixed bodies with objective materials on lattice-perturbed 8-cell "
             "meshes. Calls the library does not offer (mass of axisymmetric bodies, 2-vector gravity on axisymmetric fields) are not cases.",
        ref="5/C14"),
    "C03": dict(
        engine="Material",
        technique="TLA+ law module Material.tla: integer 7-point stencil derivative law evaluated by TLC on symmetric differences of energies / "
                  "stresses / mixed gradient entries vs the returned stresses / elasticity tensors / mixed blocks on spec-issued lattice "
                  "deformation gradients; branch predicate for history-dependent updates; frame conditions (inputs untouched)",
        text="For every built-in model (hand-coded, all tensortrax and jax hyperelastic models, composite, total-Lagrange wrapper, MORPH, "
             "pseudo-elastic virgin/loaded, mixed u-p-J wrappers, small-strain elastic-plastic, linear-elastic variants, Laplace) TLC checks "
             "45 D1 - 9 D2 + D3 = 15 R with R = P:D for energies, A:D for stresses at fixed state, the six mixed blocks (None = 0) and the "
             "algorithmic tangent of stress updates, for unit and lattice directions D on batches of lattice deformation gradients.",
        note="A lattice sample at ~1e-5 resolution, not a proof: energies are transcendental. Non-smooth points are excluded by spec "
             "predicates on logged data (same return-mapping branch on the whole stencil; distinct stretches; history well above / below the "
             "current energy). NaN/inf outputs are reported (clause FiniteValues).",
        ref="5/C03"),
    "C11": dict(
        engine="Material",
        technique="TLA+ linear laws in Material.tla with exact rational rotations Q = N/q evaluated by TLC on logged stresses / tangents",
        text="TLC checks q P(QF) = N P(F) for rational rotations of the 1/3, 1/7, 1/9 families and signed permutations, symmetry of P F^T with "
             "exact lattice F, P(1, virgin) = 0, A_ijkl = A_klij for hyperelastic models and q P(F Q^T) = P(F) N^T for the isotropic "
             "(invariant / principal-stretch) models; the model class table (hyperelastic / isotropic / anisotropic / micro-sphere / history) "
             "is part of the case set.",
        note="Lattice F with det in [0.6, 1.7]; 2^-20 fixed point (8 ulp + 2^-15 relative; jax principal-stretch models x64 for their "
             "documented 1e-4 eigenvalue regularisation). Micro-sphere and anisotropic models: objectivity only.",
        ref="5/C11"),
    "C12": dict(
        engine="Material",
        technique="TLA+ agreement law and the table of documented initial moduli (closed forms transcribed from the docstrings into Material.tla) "
                  "evaluated by TLC",
        text="TLC compares stress and elasticity of every pair of implementations of one model on identical lattice inputs and checks that "
             "A(1) of every isotropic model is lambda0 1x1 + mu0 (1o1 + 1o1) with (mu0, K0) computed by TLC from the parameters through the "
             "documented closed form -- the only oracle for a typo shared by both back-ends.",
        note="Per-pair tolerances are spec constants; extended-tube moduli at delta = 0; micro-sphere and orthotropic models have no isotropic "
             "closed form and are compared only pairwise.",
        ref="5/C12"),
    "C09": dict(
        engine="Patch",
        technique="TLA+ law module Patch.tla: TLC recomputes the prescribed lattice affine map H X in integers and compares with the displacement "
                  "the real Newton solver returned at every point, and judges uniformity of F, lateral stress freedom, reaction = P A, view "
                  "curves and ramp independence of characteristic-curve jobs",
        text="Displacement patch tests (lattice affine map on the whole boundary, interior points perturbed on the 1/16 lattice) for hex 8/20/27, "
             "tet 4/10, quad 4/8/9, tri 3/6 in 3D / plane strain: u = H X at every point and F = 1 + H at every quadrature point; uniaxial and "
             "biaxial characteristic-curve jobs: F uniform, prescribed stretch reached, lateral stress zero (direct material call at the mean "
             "F), reaction = P11 A0, material-level view curve = same stress, final state independent of the ramp subdivision.",
        note="Newton tolerance 1e-10; 2^-20 fixed point with 64-96 ulp. Materials: Neo-Hooke (+ Mooney-Rivlin, SVK by AD in thorough); stable "
             "stretch range <= 1.5.",
        ref="5/C09"),
    "C10": dict(
        engine="Reduced",
        technique="TLA+ equivalence laws in Reduced.tla: TLC ties the two layers of the extruded slab and compares with the plane-strain body, "
                  "applies the integer stencil law to the axisymmetric energy, checks second-order approach to the revolved model, and "
                  "compares condensed vs three-field and uniform vs general results",
        text="Plane strain = unit-thickness slab with w = 0 (forces and stiffness, entry by entry, out-of-plane forces cancel); axisymmetric "
             "nodal forces = derivative of Pi = sum 2 pi R W dA; ring sums of the revolved 3D model with 8/16/32 segments approach the "
             "axisymmetric forces at least 3x per doubling; the nearly-incompressible body converges to the same u, p, J as the three-field "
             "formulation for several bulk moduli / loads; uniform-grid regions give the same vectors and matrices.",
        note="Convergence to the revolved model is a finite-refinement law (three levels). Plane strain vs slab for linear cells only.",
        ref="5/C10"),
    "C18": dict(
        engine="Modal",
        technique="TLA+ law module Modal.tla: TLC forms K v and lambda M v in fixed point from K, M re-assembled by the driver from fresh items "
                  "and judges every returned eigenpair, extracted modes, frequencies, rigid-mode counts and rigid-motion invariance",
        text="For free-vibration jobs on hex / tet / quad / quad8 bodies with seeded constants, densities, boundary dictionaries and mode counts: "
             "K v = lambda M v on the free unknowns, modes vanish on prescribed unknowns and carry the eigenvector elsewhere, (2 pi f)^2 = "
             "lambda, exactly 3 / 6 zero modes for unconstrained 2D / 3D bodies, spectrum unchanged by a rational rotation + translation, "
             "extra fields of a mixed container carry no mass.",
        note="The eigen-solver is not modelled (a-posteriori validation). Fixed point 2^-20 (matrices, modes), 2^-16 (eigenvalues); <= 45 free unknowns.",
        ref="5/C18"),
    "C19": dict(
        engine="Post",
        technique="TLA+ law module Post.tla: TLC recomputes point means from the mesh incidence, integrals, P F^T, quadrature means and boundary "
                  "sums and compares with the post-processing routines' results",
        text="Projection reproduces nodal values of fields of the region's own space (10 region kinds x tensor orders 0-2) and preserves the "
             "volume integral of arbitrary quadrature values; extrapolation reproduces multilinear fields; shifting to points returns the mean "
             "over attached cells (recomputed by TLC from the cells array); Kirchhoff = P F^T and Cauchy = P F^T / det F; per-cell view data = "
             "quadrature means; boundary force and moment = sums over the boundary's points with exact lattice positions.",
        note="tools.moment on 2D fields raises with the installed numpy and is not a case. Simplex regions are built with the rule the code's own guard names as sufficient.",
        ref="5/C19"),
}

NOT_YET = {}

ENGINES = [
    {"name": "Patch", "path": "spec/Patch.tla", "serves_properties": ["C09"], "kind_free_text": "TLA+ patch-test / characteristic-curve laws"},
    {"name": "Reduced", "path": "spec/Reduced.tla", "serves_properties": ["C10"], "kind_free_text": "TLA+ equivalence laws between formulations"},
    {"name": "Modal", "path": "spec/Modal.tla", "serves_properties": ["C18"], "kind_free_text": "TLA+ eigenpair / spectrum laws in fixed point"},
    {"name": "Post", "path": "spec/Post.tla", "serves_properties": ["C19"], "kind_free_text": "TLA+ projection / post-processing laws"},
    {"name": "Material", "path": "spec/Material.tla", "serves_properties": ["C03", "C11", "C12"],
     "kind_free_text": "TLA+ constitutive laws: stencil derivative, objectivity with rational rotations, agreement, documented initial moduli"},
    {"name": "Items", "path": "spec/Items.tla", "serves_properties": ["C01", "C14"],
     "kind_free_text": "TLA+ stencil-derivative / symmetry / multiplier / balance laws for solver items, evaluated by TLC in fixed point"},
    {"name": "Region", "path": "spec/Region.tla", "serves_properties": ["C06"],
     "kind_free_text": "TLA+ laws of regions/fields: exact lattice volumes, polynomial reproduction evaluated by TLC in fixed point; "
                       "Reload.tla / ReloadMC.tla / ReloadTrace.tla state machine of mesh updates and region reloads (step conformance)"},
    {"name": "TensorLaws", "path": "spec/TensorLaws.tla", "serves_properties": ["C17"],
     "kind_free_text": "TLA+ exact tensor algebra definitions (Einstein-summation evaluator) + TLC trace validation"},
    {"name": "MeshOps", "path": "spec/MeshOps.tla", "serves_properties": ["C16"],
     "kind_free_text": "TLA+ exact lattice geometry relations + MeshOpsMC.tla program-space model + MeshGen.tla fixed-point generators"},
    {"name": "Assembly", "path": "spec/Assembly.tla", "serves_properties": ["C02"],
     "kind_free_text": "TLA+ defining sums of integral forms (exact integers) + Threads.tla interleaving model + AssemblyMC.tla references"},
    {"name": "Surface", "path": "spec/Surface.tla", "serves_properties": ["C13"],
     "kind_free_text": "TLA+ incidence structure + proper rotation group; table/selection/geometric laws; SurfaceMC.tla reference and negatives"},
    {"name": "Dof", "path": "spec/Dof.tla", "serves_properties": ["C08"],
     "kind_free_text": "TLA+ index algebra of unknown numbering and boundary partition; DofMC.tla small-scope model; DofTrace.tla validation; "
                       "Fields.tla / FieldsMC.tla / FieldsTrace.tla state machine of field-container operations (heap model, step conformance)"},
    {"name": "Solver", "path": "spec/Solver.tla", "serves_properties": ["C07", "C15", "C20"],
     "kind_free_text": "TLA+ state machine of Job/Step/newtonrhapson/commit protocol; SolverMC.tla (exhaustive + seeded faults + behaviour export), "
                       "SolverTrace.tla (trace validation), harness/vh/tracer.py (run-time event tracer), NewtonLaws.tla (numeric clauses)"},
    {"name": "Quadrature", "path": "spec/Quadrature.tla", "serves_properties": ["C05"],
     "kind_free_text": "TLA+ law module (fixed-point moments) + TLC trace validation + reference model QuadratureMC.tla"},
    {"name": "Element", "path": "spec/Element.tla", "serves_properties": ["C04"],
     "kind_free_text": "TLA+ law module + TLC trace validation of lattice samples + reference model ElementMC.tla"},
]


def main():
    props = [json.loads(l) for l in open(os.path.join(HERE, "properties.jsonl"))]
    checks = []
    for p in props:
        pid = p["id"]
        if pid not in CHECKS:
            continue
        c = CHECKS[pid]
        checks.append({
            "property_id": pid,
            "quick_cmd": "bin/check %s --tier quick" % pid,
            "thorough_cmd": "bin/check %s --tier thorough" % pid,
            "evidence_file": "evidence/%s.json" % pid,
            "replay_cmd_template": "bin/check %s --replay {path}" % pid,
            "engine": c["engine"],
            "level_claimed": {"category": "model_checking", "text": c["text"], "design_ref": "DESIGN.md section " + c["ref"]},
            "level_note": c["note"],
            "technique": c["technique"],
        })
    na = [{"property_id": p["id"], "reason": NOT_YET.get(p["id"], "check not built yet in this round (planned, see DESIGN.md section 5); not claimed until its TLA+ module and driver exist")}
          for p in props if p["id"] not in CHECKS]
    man = {
        "version": 1,
        "setup_cmd": "sh tools/setup.sh",
        "hooks": {
            "guard": "FELUPE_VERIF_TRACE",
            "enable": "no source hooks: the harness wraps felupe's module globals / class attributes at run time (harness/vh/tracer.py) when FELUPE_VERIF_TRACE is set; /repo is imported from its working tree (editable install)",
            "baseline_off_cmd": "cd /repo && /venv/bin/python -m pytest -ra -q -p no:cacheprovider --timeout=900 --continue-on-collection-errors",
            "source_commits": [],
            "add_only": True,
        },
        "engines": ENGINES,
        "checks": checks,
        "not_applicable": na,
        "notes": "All checks: bin/check <ID> --tier quick|thorough; exit 0 held, 1 VIOLATION, 2 machinery failure. "
                 "Genuine defects repaired by fix: commits in /repo are listed under 'fixed' in known_findings.json.",
    }
    with open(os.path.join(HERE, "MANIFEST.json"), "w") as f:
        json.dump(man, f, indent=1)
    print("MANIFEST.json: %d checks, %d not_applicable" % (len(checks), len(na)))


if __name__ == "__main__":
    main()
