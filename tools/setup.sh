#!/bin/sh
# tools/setup.sh -- MANIFEST.setup_cmd: byte-compile the harness and parse every specification module with SANY.
# A failing module is retried once (JVM start-up hiccups) and its SANY output is shown.
cd "$(dirname "$0")/.." || exit 1
/venv/bin/python -m compileall -q harness || exit 1
mkdir -p .work/sanytmp
cd spec || exit 1
for f in *.tla; do
  out=$(java -Djava.io.tmpdir=../.work/sanytmp -cp /opt/veriftools/tla/tla2tools.jar:/opt/veriftools/tla/CommunityModules-deps.jar tla2sany.SANY "$f" 2>&1) && continue
  sleep 1
  out=$(java -Djava.io.tmpdir=../.work/sanytmp -cp /opt/veriftools/tla/tla2tools.jar:/opt/veriftools/tla/CommunityModules-deps.jar tla2sany.SANY "$f" 2>&1) && continue
  echo "SANY failed: $f"; echo "$out" | tail -15; rm -rf ../.work/sanytmp; exit 1
done
rm -rf ../.work/sanytmp; rmdir ../.work 2>/dev/null
exit 0
