#!/usr/bin/env python3
"""tools/seeded_matrix.py [<seeded dir name> ...]   (default: all of /verif/seeded/*)
Runs, for every stored seeded change, the checks named in its meta.json (checks_run) against a scratch copy of /repo/src
with the change applied (tools/try_mutant.sh; never touches /repo) and records rc / failing clauses in meta.json "results".
Exit 0 iff every change is detected (rc=1) by at least one of its checks."""
import json
import os
import re
import subprocess
import sys
from concurrent.futures import ThreadPoolExecutor

ROOT = os.path.dirname(os.path.dirname(os.path.abspath(__file__)))
names = sys.argv[1:] or sorted(os.listdir(ROOT + "/seeded"))


def one(name):
    d = "%s/seeded/%s" % (ROOT, name)
    meta = json.load(open(d + "/meta.json"))
    out = subprocess.run([ROOT + "/tools/try_mutant.sh", d + "/patch.diff"] + meta["checks_run"], capture_output=True, text=True).stdout
    res = {}
    for line in out.splitlines():
        m = re.match(r"(C\d\d) rc=(\d+) ?(.*)", line)
        if m:
            res[m.group(1)] = {"rc": int(m.group(2)), "clauses": sorted(set(re.findall(r"failing clause (\w+)", m.group(3))))}
    meta["results"] = res
    meta["detected_by"] = sorted(k for k, v in res.items() if v["rc"] == 1)
    json.dump(meta, open(d + "/meta.json", "w"), indent=1, sort_keys=True)
    return name, meta["detected_by"], res


bad = 0
# checks of one property must not run concurrently with themselves (shared work directory): group by property, run groups in parallel
groups = {}
for n in names:
    groups.setdefault(n.split("-")[0], []).append(n)
with ThreadPoolExecutor(max_workers=int(os.environ.get("JOBS", "3"))) as ex:
    for rs in ex.map(lambda g: [one(n) for n in g], groups.values()):
        for name, det, res in rs:
            print(name, "detected_by=%s" % ",".join(det), " ".join("%s:%d:%s" % (k, v["rc"], "+".join(v["clauses"])) for k, v in sorted(res.items())), flush=True)
            bad += not det
sys.exit(1 if bad else 0)
