#!/bin/sh
# tools/process_round3.sh <WT> <k>  -- tests a delivered round-3 change (worktree /tmp/wt/<WT>, change k) against the check of the
# property named in its notes ("PROPERTY: Cxx") and prints one line
W=/tmp/wt/$1; K=$2
P=$(grep -o -m1 "PROPERTY: *C[0-9][0-9]" $W/notes$K.txt | grep -o "C[0-9][0-9]")
cd "$(dirname "$0")/.."
echo "$1-$K $P: $(tools/try_mutant.sh $W/patch$K.diff $P $3 $4 | cut -c1-220 | tr '\n' ' ')"
