#!/usr/bin/env python3
"""tools/benign_matrix.py [--all] [<benign dir name> ...]
Runs, for every stored behaviour-preserving change (benign/<B>-<k>/patch.diff), the checks named in CHECKS (or all 20 with
--all) against a scratch copy of /repo/src with the change applied; a check that exits non-zero is a FALSE ALARM of the
machinery.  Results (rc, drift lines) are written to benign/<B>-<k>/meta.json.  Exit 0 iff no check raised an alarm."""
import json
import os
import re
import shutil
import subprocess
import sys
import tempfile
from concurrent.futures import ThreadPoolExecutor

ROOT = os.path.dirname(os.path.dirname(os.path.abspath(__file__)))
ALL = ["C%02d" % i for i in range(1, 21)]
CHECKS = {"B1": ["C07", "C15", "C20", "C09", "C10", "C01"], "B2": ["C01", "C02", "C08", "C10", "C14", "C06", "C07", "C09"],
          "B3": ["C04", "C05", "C06", "C13", "C16", "C02", "C09", "C10", "C19"], "B4": ["C03", "C11", "C12", "C15", "C09", "C01", "C10"],
          "B5": ["C17", "C14", "C18", "C19", "C01", "C03", "C06", "C13", "C20"],
          "B6": ["C06", "C08", "C16", "C19", "C20", "C07", "C02", "C10"], "B7": ["C07", "C15", "C20", "C01", "C09", "C10", "C03"],
          "B8": ["C16", "C06", "C13", "C09", "C20"], "B9": ["C14", "C01", "C08", "C07", "C18", "C19", "C20", "C09"],
          "B10": ["C13", "C05", "C04", "C06", "C09", "C03", "C11", "C12", "C15", "C17"]}
argv = sys.argv[1:]
allc = "--all" in argv
names = [a for a in argv if not a.startswith("--")] or sorted(os.listdir(ROOT + "/benign"))


def one(name):
    d = "%s/benign/%s" % (ROOT, name)
    scr = tempfile.mkdtemp(prefix="benign.", dir="/tmp")
    try:
        shutil.copytree("/repo/src", scr + "/src")
        subprocess.run(["patch", "-p1", "-s", "-i", d + "/patch.diff"], cwd=scr, check=True)
        res = {}
        for cid in (ALL if allc else CHECKS[name.split("-")[0]]):
            e = dict(os.environ, VERIF_REPO_SRC=scr + "/src")
            p = subprocess.run([ROOT + "/bin/check", cid], env=e, capture_output=True, text=True)
            out = p.stdout + p.stderr
            res[cid] = {"rc": p.returncode, "drift": sorted(set(re.findall(r"SPEC-DRIFT: property=\w+ clause=(\S+)", out))),
                        "failing": sorted(set(re.findall(r"failing clause (\S+)", out))),
                        "machinery": out.strip().splitlines()[-1][:300] if p.returncode == 2 else ""}
    finally:
        shutil.rmtree(scr, ignore_errors=True)
    meta = {"kind": "behaviour-preserving change (must raise no alarm)", "confirmed": "full test suite passes with the change (161 passed)",
            "origin": "fresh sub-agent given the 20 property texts and a scratch worktree of /repo", "results": res}
    json.dump(meta, open(d + "/meta.json", "w"), indent=1, sort_keys=True)
    return name, res


bad = 0
groups = {}
for n in names:
    groups.setdefault(n.split("-")[0], []).append(n)
with ThreadPoolExecutor(max_workers=int(os.environ.get("JOBS", "3"))) as ex:
    for rs in ex.map(lambda g: [one(n) for n in g], groups.values()):
        for name, res in rs:
            alarms = {k: v for k, v in res.items() if v["rc"] != 0}
            drift = {k: v["drift"] for k, v in res.items() if v["drift"]}
            print(name, "alarms=%s" % json.dumps(alarms), "drift=%s" % json.dumps(drift), flush=True)
            bad += bool(alarms)
subprocess.run(["git", "checkout", "-q", "--", "evidence"], cwd=ROOT)
sys.exit(1 if bad else 0)
