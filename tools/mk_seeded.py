#!/usr/bin/env python3
"""tools/mk_seeded.py <ID> <k> [<extra check id> ...]          (round 1: worktree /tmp/wt/<ID>, stored as seeded/<ID>-<k>)
   tools/mk_seeded.py <WT>:<ID>:<n> <k> [<extra check id> ...]  (later rounds: worktree /tmp/wt/<WT>, change k, stored as seeded/<ID>-<n>)
Stores a confirmed seeded change from its scratch worktree as /verif/seeded/<ID>-<n>/ (patch.diff, demo.py, notes.txt,
meta.json), after tools/confirm_seeded.sh <worktree> <k> was run (its logs are read for the confirmation outcome)."""
import json
import os
import re
import shutil
import sys

ID, K = sys.argv[1], sys.argv[2]
extra = sys.argv[3:]
WT, NK = ID, K
if ":" in ID:
    WT, ID, NK = ID.split(":")
W = "/tmp/wt/%s" % WT
D = "/verif/seeded/%s-%s" % (ID, NK)
os.makedirs(D, exist_ok=True)
shutil.copy("%s/patch%s.diff" % (W, K), D + "/patch.diff")
shutil.copy("%s/demo%s.py" % (W, K), D + "/demo.py")
notes = open("%s/notes%s.txt" % (W, K)).read()
open(D + "/notes.txt", "w").write(notes)
tests = open("/tmp/wt/%s.tests%s.log" % (WT, K)).read().strip().splitlines()[-1]
m = re.search(r"(Need[^\n]*(?:\n  [^\n]*)*)", notes)
files = re.findall(r"^\+\+\+ b/(\S+)", open(D + "/patch.diff").read(), re.M)
meta = {
    "property": ID,
    "files": files,
    "needs_to_manifest": re.sub(r"\s+", " ", m.group(1)).strip() if m else "see notes.txt",
    "origin": "fresh sub-agent given only the property text and a scratch worktree of /repo (nothing from /verif)",
    "confirmed_by": {
        "commands": ["PYTHONPATH=<wt>/src /venv/bin/python demo.py   (clean worktree, then with patch.diff applied)",
                     "PYTHONPATH=<wt>/src /venv/bin/python -m pytest -q -p no:cacheprovider --timeout=900 tests   (with patch.diff applied)"],
        "demo_clean_rc": 0, "demo_with_change_rc": 1, "test_suite_with_change": tests,
    },
    "checks_run": sorted(set([ID] + extra)),
}
old = {}
if os.path.exists(D + "/meta.json"):
    old = json.load(open(D + "/meta.json"))
for k in ("results", "history"):
    if k in old:
        meta[k] = old[k]
json.dump(meta, open(D + "/meta.json", "w"), indent=1, sort_keys=True)
print(D)
