#!/bin/sh
# tools/selftest.sh [pattern]  -- every hand-written change under selftest/ must be detected by the check of its property:
#   <ID>-<what>.diff        -> the check exits 1 (a clause the property implies fails)
#   <ID>-<what>.drift.diff  -> the check exits 0 and prints a SPEC-DRIFT line (the code left the specification, the property still holds)
cd "$(dirname "$0")/.."
miss=0
for f in selftest/${1:-*}.diff; do
  id=$(basename "$f" | cut -d- -f1)
  SCR=$(mktemp -d /tmp/selftest.XXXXXX)
  cp -r /repo/src "$SCR/src"; ( cd "$SCR" && patch -p1 -s < "$OLDPWD/$f" )
  VERIF_REPO_SRC="$SCR/src" bin/check "$id" > "$SCR/log" 2>&1; rc=$?
  drift=$(grep -c '^SPEC-DRIFT' "$SCR/log")
  echo "$(basename "$f"): rc=$rc drift_lines=$drift $(grep -E 'failing clause|^SPEC-DRIFT' "$SCR/log" | head -2 | cut -c1-110 | tr '\n' '|')"
  case "$f" in
    *.drift.diff) [ $rc -eq 0 ] && [ $drift -gt 0 ] || miss=1;;
    *) [ $rc -eq 1 ] || miss=1;;
  esac
  rm -rf "$SCR"
done
git checkout -q -- evidence 2>/dev/null || true
exit $miss
