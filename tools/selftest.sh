#!/bin/sh
# tools/selftest.sh [pattern]  -- every hand-written change under selftest/ must be detected by the check of its property
cd "$(dirname "$0")/.."
miss=0
for f in selftest/${1:-*}.diff; do
  id=$(basename "$f" | cut -d- -f1)
  line=$(tools/try_mutant.sh "$f" "$id" | tail -1 | cut -c1-200)
  echo "$(basename "$f"): $line"
  case "$line" in *"rc=1"*) ;; *) miss=1;; esac
done
exit $miss
