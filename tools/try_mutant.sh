#!/bin/sh
# tools/try_mutant.sh <patch.diff> <ID> [<ID> ...]
# applies the patch to a scratch copy of /repo/src (outside /repo and /verif), runs the named checks
# against it (VERIF_REPO_SRC), prints one line per check and removes the copy.
set -e
PATCH=$(readlink -f "$1"); shift
SCR=$(mktemp -d /tmp/mutsrc.XXXXXX)
cp -r /repo/src "$SCR/src"
( cd "$SCR" && patch -p1 -s < "$PATCH" )
cd "$(dirname "$0")/.."
for id in "$@"; do
  VERIF_REPO_SRC="$SCR/src" bin/check "$id" --tier "${TIER:-quick}" > "$SCR/$id.log" 2>&1 && rc=0 || rc=$?
  echo "$id rc=$rc $(grep -E 'failing clause|MACHINERY' "$SCR/$id.log" | head -4 | cut -c1-200 | tr '\n' '|')"
done
rm -rf "$SCR"
# evidence files were rewritten by these runs against a mutant: restore the committed ones
git checkout -q -- evidence 2>/dev/null || true
