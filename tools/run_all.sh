#!/bin/sh
# tools/run_all.sh [tier] [seed...]  -- runs every registered check, prints one line per (property, seed)
cd "$(dirname "$0")/.."
TIER=${1:-quick}; shift
SEEDS=${*:-0}
LOGDIR=${LOGDIR:-$(mktemp -d /tmp/verif_logs.XXXXXX)}
for s in $SEEDS; do
  for id in C01 C02 C03 C04 C05 C06 C07 C08 C09 C10 C11 C12 C13 C14 C15 C16 C17 C18 C19 C20; do
    t0=$(date +%s)
    VERIF_SEED=$s bin/check $id --tier $TIER > "$LOGDIR/verif_run_${TIER}_$id.log" 2>&1; rc=$?
    t1=$(date +%s)
    echo "$id seed=$s rc=$rc $((t1-t0))s $(grep -E 'VIOLATION|MACHINERY|KNOWN' "$LOGDIR/verif_run_${TIER}_$id.log" | head -3 | cut -c1-160 | tr '\n' ' ')"
  done
done
